/* Contracts for cntgs::detail::AllocatorAwarePointer<LedgerAlloc<Aligned<8>, F>> (src/cntgs/detail/allocator.hpp).
 * F = {{F}}: bit0 POCCA, bit1 POCMA, bit2 POCS, bit3 is_always_equal.  Postconditions are taken from the statements
 * of C07 (every block returned once, with its size, through an equal allocator), C08 (propagation follows the traits,
 * never own memory of an unequal allocator), C05 (footprint), C16 (no hidden allocation). */
#include <stdlib.h>
#include "prelude.h"
#include "{{TU_C}}"

#define AAPFN(x) "cntgs::detail::AllocatorAwarePointer<.*>::" x
typedef @T{cntgs::detail::AllocatorAwarePointer<.*>::~AllocatorAwarePointer\(\)|0} AAPp; /* pointer to the real struct */
typedef @T{cntgs::detail::AllocatorAwarePointer<.*>::AllocatorAwarePointer\(unsigned long, vf::LedgerAlloc<.*> const&\)|2} ALp;
typedef @T{cntgs::detail::AllocatorAwarePointer<.*>::release\(\)|r} STp; /* pointer to storage element */

#define POCCA (({{F}} & 1) != 0)
#define POCMA (({{F}} & 2) != 0)
#define POCS (({{F}} & 4) != 0)
#define AE (({{F}} & 8) != 0)
#define MAXN (VF_MAX_BYTES / 8)

#define ID(p) ((p)->f0.f0.f0.f0)   /* impl_.<allocator>.id */
#define PTR(p) ((uint8_t *)(p)->f0.f1) /* impl_.ptr_ */
#define SIZE(p) ((p)->f0.f2)       /* impl_.size_ */
#define EQ(a, b) (AE || (a) == (b))
/* representation invariant WF_PTR (DESIGN 4.3) */
#define WF(p) (SIZE(p) <= MAXN && (PTR(p) == 0 || VF_OWNS(PTR(p), SIZE(p) * 8, ID(p), AE)))
#define SEP(a, b) (PTR(a) == 0 || PTR(b) == 0 || PTR(a) != PTR(b))

#define F_CTOR_SIZE @F{cntgs::detail::AllocatorAwarePointer<.*>::AllocatorAwarePointer\(unsigned long, vf::LedgerAlloc<.*> const&\)}
#define F_CTOR_PTR @F{cntgs::detail::AllocatorAwarePointer<.*>::AllocatorAwarePointer\(cntgs::detail::Aligned<8ul>\*, unsigned long, vf::LedgerAlloc<.*> const&\)}
#define F_CTOR_COPY @F{cntgs::detail::AllocatorAwarePointer<.*>::AllocatorAwarePointer\(cntgs::detail::AllocatorAwarePointer<.*> const&\)}
#define F_CTOR_MOVE @F{cntgs::detail::AllocatorAwarePointer<.*>::AllocatorAwarePointer\(cntgs::detail::AllocatorAwarePointer<.*>&&\)}
#define F_DTOR @F{cntgs::detail::AllocatorAwarePointer<.*>::~AllocatorAwarePointer\(\)}
#define F_COPY_ASSIGN @F{cntgs::detail::AllocatorAwarePointer<.*>::operator=\(cntgs::detail::AllocatorAwarePointer<.*> const&\)}
#define F_MOVE_ASSIGN @F{cntgs::detail::AllocatorAwarePointer<.*>::operator=\(cntgs::detail::AllocatorAwarePointer<.*>&&\)}
#define F_RELEASE @F{cntgs::detail::AllocatorAwarePointer<.*>::release\(\)}
#define F_RESET @F{cntgs::detail::AllocatorAwarePointer<.*>::reset\(}
#define F_SWAP @F{^void cntgs::detail::swap<vf::LedgerAlloc}

void F_CTOR_SIZE(AAPp self, uint64_t size, ALp alloc)
__CPROVER_requires(__CPROVER_rw_ok(self, sizeof(*self)) && __CPROVER_r_ok(alloc, sizeof(*alloc)) && size <= MAXN)
__CPROVER_ensures(ID(self) == alloc->f0) /* C08: constructed with the given allocator */
__CPROVER_ensures(SIZE(self) == size && PTR(self) != 0 && WF(self)) /* C07 C08: owns one live block of size units from its own allocator */
__CPROVER_ensures(g_alloc_calls == __CPROVER_old(g_alloc_calls) + 1 && g_live_blocks == __CPROVER_old(g_live_blocks) + 1) /* C07: exactly one allocation */
__CPROVER_ensures(g_last_bytes == size * 8) /* C05: requests exactly size units */
__CPROVER_assigns(*self, g_alloc_calls, g_live_blocks, g_last_bytes, __CPROVER_object_whole(g_slot))
;

void F_CTOR_PTR(AAPp self, STp ptr, uint64_t size, ALp alloc)
__CPROVER_requires(__CPROVER_rw_ok(self, sizeof(*self)) && __CPROVER_r_ok(alloc, sizeof(*alloc)))
__CPROVER_ensures(ID(self) == alloc->f0 && SIZE(self) == size && PTR(self) == (uint8_t *)ptr) /* C16: adopts the pointer, no allocation */
__CPROVER_assigns(*self)
;

void F_CTOR_COPY(AAPp self, AAPp other)
__CPROVER_requires(__CPROVER_rw_ok(self, sizeof(*self)) && __CPROVER_r_ok(other, sizeof(*other)) && WF(other) && self != other)
__CPROVER_ensures(ID(self) == VF_SOCCC(ID(other))) /* C08: allocator is select_on_container_copy_construction of the source's */
__CPROVER_ensures(SIZE(self) == SIZE(other) && PTR(self) != 0 && WF(self)) /* C07 C08: owns a live block from its own allocator */
__CPROVER_ensures(SEP(self, other)) /* C09: storage independent of the source */
__CPROVER_ensures(g_alloc_calls == __CPROVER_old(g_alloc_calls) + 1 && g_live_blocks == __CPROVER_old(g_live_blocks) + 1) /* C07: exactly one allocation */
__CPROVER_ensures(g_last_bytes == SIZE(other) * 8) /* C05: copy requests what the source consumes */
__CPROVER_assigns(*self, g_alloc_calls, g_live_blocks, g_last_bytes, __CPROVER_object_whole(g_slot))
;

void F_CTOR_MOVE(AAPp self, AAPp other)
__CPROVER_requires(__CPROVER_rw_ok(self, sizeof(*self)) && __CPROVER_rw_ok(other, sizeof(*other)) && WF(other) && self != other)
__CPROVER_ensures(PTR(self) == __CPROVER_old(PTR(other)) && SIZE(self) == __CPROVER_old(SIZE(other)) && ID(self) == __CPROVER_old(ID(other))) /* C09 C08: target takes block and allocator of the source */
__CPROVER_ensures(PTR(other) == 0 && WF(self)) /* C07: ownership transferred, source owns nothing */
__CPROVER_ensures(g_alloc_calls == __CPROVER_old(g_alloc_calls) && g_dealloc_calls == __CPROVER_old(g_dealloc_calls)) /* C16: move construction does not allocate */
__CPROVER_assigns(*self, *other)
;

void F_DTOR(AAPp self)
__CPROVER_requires(__CPROVER_rw_ok(self, sizeof(*self)) && WF(self))
__CPROVER_ensures(g_live_blocks == __CPROVER_old(g_live_blocks) - (__CPROVER_old(PTR(self)) != 0)) /* C07: the owned block is returned */
__CPROVER_ensures(g_dealloc_calls == __CPROVER_old(g_dealloc_calls) + (__CPROVER_old(PTR(self)) != 0)) /* C07: exactly once */
__CPROVER_assigns(g_live_blocks, g_dealloc_calls, __CPROVER_object_whole(g_slot))
__CPROVER_frees(VF_RAW(PTR(self)))
;

AAPp F_COPY_ASSIGN(AAPp self, AAPp other)
__CPROVER_requires(__CPROVER_rw_ok(self, sizeof(*self)) && __CPROVER_r_ok(other, sizeof(*other)) && WF(self) && WF(other) && (self == other || SEP(self, other)))
__CPROVER_ensures(ID(self) == ((POCCA && self != other) ? ID(other) : __CPROVER_old(ID(self)))) /* C08: allocator propagates on copy assignment iff POCCA */
__CPROVER_ensures(PTR(self) != 0 || self == other) /* C07: target has storage afterwards */
__CPROVER_ensures(WF(self)) /* C08 C07: never owns memory of an unequal allocator; recorded size is the requested size */
__CPROVER_ensures(SIZE(self) >= SIZE(other)) /* C09: room for the source's contents */
__CPROVER_ensures(self == other || SEP(self, other)) /* C09: independent storage */
__CPROVER_ensures(g_live_blocks == __CPROVER_old(g_live_blocks) + ((__CPROVER_old(PTR(self)) == 0 && self != other) ? 1 : 0)) /* C07: nothing leaked, nothing freed twice */
__CPROVER_ensures(g_alloc_calls == __CPROVER_old(g_alloc_calls) || (g_alloc_calls == __CPROVER_old(g_alloc_calls) + 1 && g_last_bytes == SIZE(other) * 8 && SIZE(self) == SIZE(other))) /* C05: a new block is exactly as large as the source's */
__CPROVER_ensures(g_alloc_calls != __CPROVER_old(g_alloc_calls) || (PTR(self) == __CPROVER_old(PTR(self)) && SIZE(self) == __CPROVER_old(SIZE(self)))) /* C05 C16: otherwise the block is kept */
__CPROVER_ensures(__CPROVER_return_value == self)
__CPROVER_assigns(*self, g_alloc_calls, g_live_blocks, g_dealloc_calls, g_last_bytes, __CPROVER_object_whole(g_slot))
__CPROVER_frees(VF_RAW(PTR(self)))
;

AAPp F_MOVE_ASSIGN(AAPp self, AAPp other)
/* call sites (vector::steal, element::steal) reach this only if POCMA, is_always_equal or equal allocators */
__CPROVER_requires(__CPROVER_rw_ok(self, sizeof(*self)) && __CPROVER_rw_ok(other, sizeof(*other)) && WF(self) && WF(other) && (self == other || SEP(self, other)) && (POCMA || EQ(ID(self), ID(other))))
__CPROVER_ensures(ID(self) == ((POCMA && self != other) ? __CPROVER_old(ID(other)) : __CPROVER_old(ID(self)))) /* C08: allocator propagates on move assignment iff POCMA */
__CPROVER_ensures(self == other || (PTR(self) == __CPROVER_old(PTR(other)) && SIZE(self) == __CPROVER_old(SIZE(other)) && PTR(other) == 0)) /* C09: target takes the source's block, source owns nothing */
__CPROVER_ensures(WF(self)) /* C08: never owns memory of an unequal allocator */
__CPROVER_ensures(g_live_blocks == __CPROVER_old(g_live_blocks) - ((__CPROVER_old(PTR(self)) != 0 && self != other) ? 1 : 0)) /* C07: old block returned exactly once */
__CPROVER_ensures(g_alloc_calls == __CPROVER_old(g_alloc_calls)) /* C16: no allocation */
__CPROVER_ensures(__CPROVER_return_value == self)
__CPROVER_assigns(*self, *other, g_live_blocks, g_dealloc_calls, __CPROVER_object_whole(g_slot))
__CPROVER_frees(VF_RAW(PTR(self)))
;

STp F_RELEASE(AAPp self)
__CPROVER_requires(__CPROVER_rw_ok(self, sizeof(*self)))
__CPROVER_ensures((uint8_t *)__CPROVER_return_value == __CPROVER_old(PTR(self)) && PTR(self) == 0 && SIZE(self) == __CPROVER_old(SIZE(self)) && ID(self) == __CPROVER_old(ID(self))) /* C07: gives up ownership without freeing */
__CPROVER_assigns(*self)
;

void F_RESET(AAPp self, AAPp other)
/* call site vector::grow: other was allocated with get_allocator() of self */
__CPROVER_requires(__CPROVER_rw_ok(self, sizeof(*self)) && __CPROVER_rw_ok(other, sizeof(*other)) && WF(self) && WF(other) && self != other && SEP(self, other) && EQ(ID(self), ID(other)))
__CPROVER_ensures(PTR(self) == __CPROVER_old(PTR(other)) && SIZE(self) == __CPROVER_old(SIZE(other)) && PTR(other) == 0) /* C10: takes the new block */
__CPROVER_ensures(ID(self) == __CPROVER_old(ID(self)) && WF(self)) /* C08: allocator unchanged and equal to the block's */
__CPROVER_ensures(g_live_blocks == __CPROVER_old(g_live_blocks) - (__CPROVER_old(PTR(self)) != 0)) /* C07: old block returned exactly once */
__CPROVER_ensures(g_alloc_calls == __CPROVER_old(g_alloc_calls)) /* C16: no allocation */
__CPROVER_assigns(*self, *other, g_live_blocks, g_dealloc_calls, __CPROVER_object_whole(g_slot))
__CPROVER_frees(VF_RAW(PTR(self)))
;

void F_SWAP(AAPp lhs, AAPp rhs)
/* the standard's precondition for container swap */
__CPROVER_requires(__CPROVER_rw_ok(lhs, sizeof(*lhs)) && __CPROVER_rw_ok(rhs, sizeof(*rhs)) && WF(lhs) && WF(rhs) && (lhs == rhs || SEP(lhs, rhs)) && (POCS || EQ(ID(lhs), ID(rhs))))
__CPROVER_ensures(PTR(lhs) == __CPROVER_old(PTR(rhs)) && SIZE(lhs) == __CPROVER_old(SIZE(rhs)) && PTR(rhs) == __CPROVER_old(PTR(lhs)) && SIZE(rhs) == __CPROVER_old(SIZE(lhs))) /* C09: blocks exchanged */
__CPROVER_ensures(ID(lhs) == (POCS ? __CPROVER_old(ID(rhs)) : __CPROVER_old(ID(lhs))) && ID(rhs) == (POCS ? __CPROVER_old(ID(lhs)) : __CPROVER_old(ID(rhs)))) /* C08: allocators exchanged iff POCS */
__CPROVER_ensures(WF(lhs) && WF(rhs)) /* C08: never owns memory of an unequal allocator */
__CPROVER_ensures(g_alloc_calls == __CPROVER_old(g_alloc_calls) && g_dealloc_calls == __CPROVER_old(g_dealloc_calls)) /* C16: swap does not allocate */
__CPROVER_assigns(*lhs, *rhs)
;

/* ---------------- harnesses: build every pre-state the precondition admits ---------------- */
static AAPp mk(_Bool may_be_null)
{
    AAPp p = malloc(sizeof(*p));
    uint64_t id = nondet_u64(), n = nondet_u64();
    __CPROVER_assume(n <= MAXN);
    ID(p) = id;
    SIZE(p) = n;
    /* a live ledger block of exactly n units from an allocator equal to id (any id if always-equal), or no block */
    p->f0.f1 = (may_be_null && nondet_bool()) ? 0 : (void *)vf_make_block(AE ? nondet_u64() : id, n * 8, 8);
    return p;
}
static void ghosts(void)
{
    vf_ghost_init(3); /* statics are nondeterministic under dfcc: set the ledger up explicitly */
}
static ALp mkalloc(void) { ALp a = malloc(sizeof(*a)); a->f0 = nondet_u64(); return a; }

void h_ctor_size(void) { ghosts(); AAPp p = malloc(sizeof(*p)); F_CTOR_SIZE(p, nondet_u64(), mkalloc()); }
void h_ctor_ptr(void) { ghosts(); AAPp p = malloc(sizeof(*p)); F_CTOR_PTR(p, (STp)(uintptr_t)nondet_u64(), nondet_u64(), mkalloc()); }
void h_ctor_copy(void) { ghosts(); AAPp p = malloc(sizeof(*p)); F_CTOR_COPY(p, mk(1)); }
void h_ctor_move(void) { ghosts(); AAPp p = malloc(sizeof(*p)); F_CTOR_MOVE(p, mk(1)); }
void h_dtor(void) { ghosts(); F_DTOR(mk(1)); }
void h_copy_assign(void) { ghosts(); F_COPY_ASSIGN(mk(1), mk(1)); }
void h_copy_assign_self(void) { ghosts(); AAPp p = mk(1); F_COPY_ASSIGN(p, p); }
void h_move_assign(void) { ghosts(); F_MOVE_ASSIGN(mk(1), mk(1)); }
void h_move_assign_self(void) { ghosts(); AAPp p = mk(1); F_MOVE_ASSIGN(p, p); }
void h_release(void) { ghosts(); F_RELEASE(mk(1)); }
void h_reset(void) { ghosts(); F_RESET(mk(1), mk(1)); }
void h_swap(void) { ghosts(); F_SWAP(mk(1), mk(1)); }
void h_swap_self(void) { ghosts(); AAPp p = mk(1); F_SWAP(p, p); }
