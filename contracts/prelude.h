/* Prelude: ghost state and the specifications of every external function the translated code calls.
 * Nothing in here is library logic; it is the trusted environment model (listed in every evidence file). */
#ifndef VF_PRELUDE_H
#define VF_PRELUDE_H
#include <stdint.h>
#include <stddef.h>

#define VF_MAX_BYTES ((uint64_t)1 << 32) /* sizes above this are excluded by preconditions (machine arithmetic) */
#define VF_HDR(align) ((uint64_t)((align) < 16 ? 16 : (align)))
#define VF_MAXK 9 /* block base = object + HDR + align*k, k nondeterministic in [0,VF_MAXK] */

/* ---- ghost ledger (C05 C07 C08 C16 C17) ---- */
extern uint64_t g_alloc_calls, g_dealloc_calls, g_live_blocks, g_last_bytes;
extern int cntgs_exc;          /* "exception pending" flag of exception-enabled configurations */
extern _Bool g_alloc_may_fail; /* set by C17 harnesses */

/* The ledger: every block handed out by the allocator hooks is recorded in one of VF_NSLOTS ghost slots
 * (base pointer, bytes requested, id of the allocating allocator).  No unit has more live blocks than slots
 * (checked by an assertion in the allocation hook). */
#define VF_NSLOTS 8
struct vf_slot { uint8_t *ptr; uint8_t *raw; uint64_t bytes; uint64_t id; _Bool live; };
extern struct vf_slot g_slot[VF_NSLOTS];
#define VF_S_(k, p, b, i, ae) (g_slot[k].live && g_slot[k].ptr == (uint8_t *)(p) && g_slot[k].bytes == (b) && ((ae) || g_slot[k].id == (i)))
/* p is the base of a live ledger block of exactly `bytes` bytes obtained from an allocator equal to `id` */
#define VF_OWNS(p, b, i, ae)                                                                                       \
    (VF_S_(0, p, b, i, ae) || VF_S_(1, p, b, i, ae) || VF_S_(2, p, b, i, ae) || VF_S_(3, p, b, i, ae) ||           \
     VF_S_(4, p, b, i, ae) || VF_S_(5, p, b, i, ae) || VF_S_(6, p, b, i, ae) || VF_S_(7, p, b, i, ae))
#define VF_L_(k, p) (g_slot[k].live && g_slot[k].ptr == (uint8_t *)(p))
#define VF_LIVE(p) (VF_L_(0, p) || VF_L_(1, p) || VF_L_(2, p) || VF_L_(3, p) || VF_L_(4, p) || VF_L_(5, p) || VF_L_(6, p) || VF_L_(7, p))
#define VF_NLIVE ((uint64_t)g_slot[0].live + g_slot[1].live + g_slot[2].live + g_slot[3].live + g_slot[4].live + g_slot[5].live + g_slot[6].live + g_slot[7].live)
/* raw start of the CBMC object a block lives in (block base = raw + alignment slack) */
#define VF_RAW(p) ((uint8_t *)(p) - __CPROVER_POINTER_OFFSET(p))

uint8_t *f_vf_alloc(uint32_t flags, uint64_t id, uint64_t bytes, uint64_t align);
void f_vf_dealloc(uint32_t flags, uint64_t id, uint8_t *p, uint64_t bytes);
uint64_t f_vf_soccc(uint64_t id);
#define VF_SOCCC(id) ((id) + 1000u)

#define VF_NWIN 4
extern uint64_t g_wit; /* witness byte index of run-time-length copies */
extern uint8_t *g_wit_dst; /* witness destination address of run-time-length copies (absolute) */
extern uint64_t g_win[VF_NWIN]; /* ghost offsets of 8-byte windows that run-time-length copies transfer faithfully */
void *vf_memcpy(void *d, const void *s, uint64_t n);
void *vf_memmove(void *d, const void *s, uint64_t n);
void *vf_memset(void *d, int c, uint64_t n);

/* harness helper: empty ledger plus up to `unrelated` live blocks that belong to nobody in the unit; counters arbitrary */
void vf_ghost_init(int unrelated);
/* harness helper: build a live ledger block exactly as f_vf_alloc would */
uint8_t *vf_make_block(uint64_t id, uint64_t bytes, uint64_t align);

/* ---- ghost object-lifetime model for vf::Tracked (C06 C09 C11 C12 C17) ----
 * One watched address g_o, chosen arbitrarily by the harness: whatever is proved about the object at g_o holds for
 * every address.  The hooks are called by the special members of vf::Tracked (inst/support.hpp). */
extern uint8_t *g_o;         /* watched address */
extern _Bool g_o_alive;      /* an alive Tracked object lives at g_o */
extern uint8_t g_o_how;      /* how it came to life: 0 from a value, 1 copy-constructed, 2 move-constructed */
extern uint8_t *g_o_from;    /* source object of its copy/move construction or last assignment */
extern uint8_t g_o_asg;      /* last assignment to it: 0 none, 1 copy-assigned, 2 move-assigned */
extern _Bool g_o_moved_from; /* it was the source of a move construction/assignment */
extern uint64_t g_obj_live, g_obj_ctor, g_obj_copy, g_obj_move, g_obj_assign, g_obj_move_assign, g_obj_dtor;
void f_vf_obj_ctor(uint8_t *p, uint32_t v);
void f_vf_obj_copy(uint8_t *p, uint8_t *src);
void f_vf_obj_move(uint8_t *p, uint8_t *src);
void f_vf_obj_assign(uint8_t *p, uint8_t *src);
void f_vf_obj_move_assign(uint8_t *p, uint8_t *src);
void f_vf_obj_dtor(uint8_t *p);
#define VF_TRACKED_SIZE 4
#define VF_OVERLAPS_O(d, n) ((uintptr_t)g_o + VF_TRACKED_SIZE > (uintptr_t)(d) && (uintptr_t)g_o < (uintptr_t)(d) + (n))

_Bool nondet_bool(void);
uint64_t nondet_u64(void);
uint32_t nondet_u32(void);
uint8_t nondet_u8(void);
uint16_t nondet_u16(void);
#endif
