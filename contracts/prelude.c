#include "prelude.h"
#include <stdlib.h>

uint64_t g_alloc_calls, g_dealloc_calls, g_live_blocks, g_last_bytes;
int cntgs_exc;
struct vf_slot g_slot[VF_NSLOTS];

static void vf_unrelated(int k)
{
    g_slot[k].live = 1; g_slot[k].ptr = (uint8_t *)malloc(1); g_slot[k].raw = g_slot[k].ptr; g_slot[k].bytes = nondet_u64(); g_slot[k].id = nondet_u64();
}
void vf_ghost_init(int unrelated)
{
    g_slot[0].live = 0; g_slot[1].live = 0; g_slot[2].live = 0; g_slot[3].live = 0;
    g_slot[4].live = 0; g_slot[5].live = 0; g_slot[6].live = 0; g_slot[7].live = 0;
    if (unrelated > 0 && nondet_bool()) vf_unrelated(7);
    if (unrelated > 1 && nondet_bool()) vf_unrelated(6);
    if (unrelated > 2 && nondet_bool()) vf_unrelated(5);
    cntgs_exc = 0;
    g_alloc_calls = nondet_u64(); g_dealloc_calls = nondet_u64(); g_live_blocks = nondet_u64(); g_last_bytes = nondet_u64();
    __CPROVER_assume(g_alloc_calls < (1ull << 60) && g_dealloc_calls < (1ull << 60) && g_live_blocks < (1ull << 60) && g_live_blocks >= 8);
}

uint8_t *vf_make_block(uint64_t id, uint64_t bytes, uint64_t align)
{
#ifdef VF_BLOCK_K
    uint64_t k = VF_BLOCK_K; /* units whose blocks are read and written byte-wise use constant-size objects (DESIGN 11) */
#else
    uint64_t k = nondet_u64();
    __CPROVER_assume(k <= VF_MAXK);
#endif
    __CPROVER_assume(bytes <= VF_MAX_BYTES && align <= 4096);
    /* block base = object start + align*k: aligned to the allocator's value_type and, for k odd, to nothing more */
    uint64_t base = align * k;
    uint8_t *raw = malloc(base + bytes);
    uint8_t *p = raw + base;
    int s = -1;
    if (!g_slot[0].live) s = 0; else if (!g_slot[1].live) s = 1; else if (!g_slot[2].live) s = 2; else if (!g_slot[3].live) s = 3;
    else if (!g_slot[4].live) s = 4; else if (!g_slot[5].live) s = 5; else if (!g_slot[6].live) s = 6; else if (!g_slot[7].live) s = 7;
    __CPROVER_assert(s >= 0, "ledger model: a free slot exists (no unit has more than VF_NSLOTS live blocks)");
    __CPROVER_assume(s >= 0);
    g_slot[s].ptr = p; g_slot[s].raw = raw; g_slot[s].bytes = bytes; g_slot[s].id = id; g_slot[s].live = 1;
    return p;
}

uint8_t *f_vf_alloc(uint32_t flags, uint64_t id, uint64_t bytes, uint64_t align)
{
    (void)flags;
    __CPROVER_assert(bytes <= VF_MAX_BYTES, "allocation request within the modelled size range");
#ifdef VF_ALLOC_MAY_FAIL
    if (nondet_bool())
    {
        cntgs_exc = 1; /* the allocator throws */
        return 0;
    }
#endif
    g_alloc_calls++;
    g_live_blocks++;
    g_last_bytes = bytes;
    return vf_make_block(id, bytes, align);
}

void f_vf_dealloc(uint32_t flags, uint64_t id, uint8_t *p, uint64_t bytes)
{
    int s = -1;
    if (VF_L_(0, p)) s = 0; else if (VF_L_(1, p)) s = 1; else if (VF_L_(2, p)) s = 2; else if (VF_L_(3, p)) s = 3;
    else if (VF_L_(4, p)) s = 4; else if (VF_L_(5, p)) s = 5; else if (VF_L_(6, p)) s = 6; else if (VF_L_(7, p)) s = 7;
    __CPROVER_assert(p != 0, "deallocate: pointer is not null");
    __CPROVER_assert(s >= 0, "deallocate: pointer is the base of a live block obtained from the allocator (no double free)");
    if (s < 0) return;
    __CPROVER_assert(g_slot[s].bytes == bytes, "deallocate: size equals the size requested");
    __CPROVER_assert((flags & 8u) || g_slot[s].id == id, "deallocate: through an allocator equal to the allocating one");
    g_dealloc_calls++;
    g_live_blocks--;
    g_slot[s].live = 0;
    free(g_slot[s].raw);
}

uint64_t f_vf_soccc(uint64_t id) { return VF_SOCCC(id); }

/* memcpy family with a run-time length (constant-length copies never get here: ll2c turns them into struct
 * assignments).  Both ranges are bounds-checked; the destination range is overwritten with arbitrary bytes except for
 * the witness byte g_wit, which is copied faithfully.  g_wit is an arbitrary constant chosen by the harness, so a
 * postcondition proved about byte g_wit of a copy holds for every byte. */
uint64_t g_wit;
uint8_t *g_wit_dst;
uint64_t g_win[VF_NWIN];
#ifndef VF_WINDOWS
#define VF_WINDOWS 0 /* units that need typed fields to survive a run-time-length copy ask for 1..VF_NWIN windows */
#endif
#define VF_WB(w, b) do { if (g_win[w] + (b) < n) ((uint8_t *)d)[g_win[w] + (b)] = t##w##b; } while (0)
#define VF_LB(w, b) uint8_t t##w##b = g_win[w] + (b) < n ? ((const uint8_t *)s)[g_win[w] + (b)] : 0
#define VF_WIN_LOAD(w) VF_LB(w, 0); VF_LB(w, 1); VF_LB(w, 2); VF_LB(w, 3); VF_LB(w, 4); VF_LB(w, 5); VF_LB(w, 6); VF_LB(w, 7)
#define VF_WIN_STORE(w) do { VF_WB(w, 0); VF_WB(w, 1); VF_WB(w, 2); VF_WB(w, 3); VF_WB(w, 4); VF_WB(w, 5); VF_WB(w, 6); VF_WB(w, 7); } while (0)
void *vf_memcpy(void *d, const void *s, uint64_t n)
{
    __CPROVER_assert(n == 0 || __CPROVER_r_ok(s, n), "memcpy: source range readable");
    __CPROVER_assert(n == 0 || __CPROVER_w_ok(d, n), "memcpy: destination range writable");
#if defined(VF_TRACKED) && !defined(VF_TRIVIAL_DTOR)
    __CPROVER_assert(!(g_o_alive && n != 0 && VF_OVERLAPS_O(d, n)), "lifetime: a byte copy does not overwrite the storage of an alive non-trivial object");
#endif
    if (n != 0)
    {
        /* faithful at the witness byte g_wit and at VF_WINDOWS eight-byte windows g_win[], arbitrary elsewhere:
         * an over-approximation of the copy (also of an overlapping memmove: everything is read before written) */
        uint8_t w = g_wit < n ? ((const uint8_t *)s)[g_wit] : 0;
        /* second witness: an arbitrary absolute destination address (independent of how a copy is split into calls) */
        uint64_t rel = (uint64_t)((uintptr_t)g_wit_dst - (uintptr_t)d);
        uint8_t w2 = rel < n ? ((const uint8_t *)s)[rel] : 0;
#if VF_WINDOWS >= 1
        VF_WIN_LOAD(0);
#endif
#if VF_WINDOWS >= 2
        VF_WIN_LOAD(1);
#endif
#if VF_WINDOWS >= 3
        VF_WIN_LOAD(2);
#endif
#if VF_WINDOWS >= 4
        VF_WIN_LOAD(3);
#endif
        __CPROVER_havoc_slice(d, n);
#if VF_WINDOWS >= 1
        VF_WIN_STORE(0);
#endif
#if VF_WINDOWS >= 2
        VF_WIN_STORE(1);
#endif
#if VF_WINDOWS >= 3
        VF_WIN_STORE(2);
#endif
#if VF_WINDOWS >= 4
        VF_WIN_STORE(3);
#endif
        if (g_wit < n) ((uint8_t *)d)[g_wit] = w;
        if (rel < n) ((uint8_t *)d)[rel] = w2;
    }
    return d;
}
void *vf_memmove(void *d, const void *s, uint64_t n) { return vf_memcpy(d, s, n); }
void *vf_memset(void *d, int c, uint64_t n)
{
    __CPROVER_assert(n == 0 || __CPROVER_w_ok(d, n), "memset: destination range writable");
    if (n != 0)
    {
        __CPROVER_havoc_slice(d, n);
        if (g_wit < n) ((uint8_t *)d)[g_wit] = (uint8_t)c;
    }
    return d;
}

/* memcmp/bcmp as the translated libstdc++ code calls them (std::equal / std::lexicographical_compare on byte ranges):
 * exact byte-wise semantics; both ranges are bounds-checked.  Units using it unwind this loop (bounded length). */
uint32_t f_memcmp(uint8_t *a, uint8_t *b, uint64_t n)
{
    __CPROVER_assert(n == 0 || __CPROVER_r_ok(a, n), "memcmp: first range readable");
    __CPROVER_assert(n == 0 || __CPROVER_r_ok(b, n), "memcmp: second range readable");
    for (uint64_t i = 0; i < n; i++)
    {
        if (a[i] != b[i]) return a[i] < b[i] ? (uint32_t)-1 : 1u;
    }
    return 0;
}
uint32_t f_bcmp(uint8_t *a, uint8_t *b, uint64_t n) { return f_memcmp(a, b, n); }

/* ---- object-lifetime hooks of vf::Tracked ---- */
uint8_t *g_o; _Bool g_o_alive; uint8_t g_o_how; uint8_t *g_o_from; uint8_t g_o_asg; _Bool g_o_moved_from;
uint64_t g_obj_live, g_obj_ctor, g_obj_copy, g_obj_move, g_obj_assign, g_obj_move_assign, g_obj_dtor;
static void vf_obj_born(uint8_t *p, uint8_t how, uint8_t *from)
{
#ifndef VF_TRIVIAL_DTOR /* storage of an object with a trivial destructor may be reused without a destructor call */
    __CPROVER_assert(!(p == g_o && g_o_alive), "lifetime: no object is constructed over an alive object");
#endif
    if (p == g_o) { g_o_alive = 1; g_o_how = how; g_o_from = from; g_o_asg = 0; g_o_moved_from = 0; }
    g_obj_live++;
}
void f_vf_obj_ctor(uint8_t *p, uint32_t v) { (void)v; g_obj_ctor++; vf_obj_born(p, 0, 0); }
void f_vf_obj_copy(uint8_t *p, uint8_t *src)
{
    __CPROVER_assert(src != g_o || g_o_alive, "lifetime: copy construction reads an alive object");
    g_obj_copy++; vf_obj_born(p, 1, src);
}
void f_vf_obj_move(uint8_t *p, uint8_t *src)
{
    __CPROVER_assert(src != g_o || g_o_alive, "lifetime: move construction reads an alive object");
    if (src == g_o) g_o_moved_from = 1;
    g_obj_move++; vf_obj_born(p, 2, src);
}
void f_vf_obj_assign(uint8_t *p, uint8_t *src)
{
    __CPROVER_assert(p != g_o || g_o_alive, "lifetime: assignment targets an alive object");
    __CPROVER_assert(src != g_o || g_o_alive, "lifetime: assignment reads an alive object");
    if (p == g_o) { g_o_asg = 1; g_o_from = src; }
    g_obj_assign++;
}
void f_vf_obj_move_assign(uint8_t *p, uint8_t *src)
{
    __CPROVER_assert(p != g_o || g_o_alive, "lifetime: move assignment targets an alive object");
    __CPROVER_assert(src != g_o || g_o_alive, "lifetime: move assignment reads an alive object");
    if (p == g_o) { g_o_asg = 2; g_o_from = src; }
    if (src == g_o) g_o_moved_from = 1;
    g_obj_move_assign++;
}
void f_vf_obj_dtor(uint8_t *p)
{
    __CPROVER_assert(p != g_o || g_o_alive, "lifetime: an object is destroyed exactly once (no destruction of a dead object)");
    if (p == g_o) g_o_alive = 0;
    g_obj_dtor++; g_obj_live--;
}

/* ---- exception runtime of exception-enabled configurations (C17): one "exception pending" flag (see DESIGN 3.3) ---- */
uint8_t *f___cxa_begin_catch(uint8_t *e) { cntgs_exc = 0; return e; }
void f___cxa_end_catch(void) {}
void f___cxa_rethrow(void) { cntgs_exc = 1; }
void f__ZSt9terminatev(void) { __CPROVER_assert(0, "std::terminate is not reached (an exception does not escape a noexcept function)"); __CPROVER_assume(0); }
uint8_t *f___cxa_allocate_exception(uint64_t n) { (void)n; return 0; }
void f___cxa_throw(uint8_t *a, uint8_t *b, uint8_t *c) { (void)a; (void)b; (void)c; cntgs_exc = 1; }
void f___cxa_free_exception(uint8_t *a) { (void)a; }
void f__ZSt17__throw_bad_allocv(void) { cntgs_exc = 1; }
void f__ZSt28__throw_bad_array_new_lengthv(void) { cntgs_exc = 1; }
