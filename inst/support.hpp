// Verification support types.  They live in /verif, not in /repo, and contain no library logic:
// every observable action is forwarded to an extern "C" hook that the C prelude specifies.
#ifndef VERIF_SUPPORT_HPP
#define VERIF_SUPPORT_HPP
#include <cstddef>
#include <cstdint>
#include <type_traits>
#include <new>
#include <iterator>

extern "C" {
void* vf_alloc(unsigned flags, unsigned long id, unsigned long bytes, unsigned long align);
void vf_dealloc(unsigned flags, unsigned long id, void* p, unsigned long bytes);
unsigned long vf_soccc(unsigned long id);
void vf_obj_ctor(void* p, unsigned v);
void vf_obj_copy(void* p, const void* src);
void vf_obj_move(void* p, void* src);
void vf_obj_assign(void* p, const void* src);
void vf_obj_move_assign(void* p, void* src);
void vf_obj_dtor(void* p);
}

namespace vf
{
// trivially copyable object of exactly N bytes with alignment 1
template <unsigned N>
struct B
{
    unsigned char b[N];
};

// F: bit0 POCCA, bit1 POCMA, bit2 POCS, bit3 is_always_equal
template <class T, unsigned F>
struct LedgerAlloc
{
    using value_type = T;
    using propagate_on_container_copy_assignment = std::bool_constant<(F & 1u) != 0>;
    using propagate_on_container_move_assignment = std::bool_constant<(F & 2u) != 0>;
    using propagate_on_container_swap = std::bool_constant<(F & 4u) != 0>;
    using is_always_equal = std::bool_constant<(F & 8u) != 0>;
    template <class U>
    struct rebind
    {
        using other = LedgerAlloc<U, F>;
    };

    unsigned long id{};

    LedgerAlloc() = default;
    explicit LedgerAlloc(unsigned long i) noexcept : id(i) {}
    template <class U>
    LedgerAlloc(const LedgerAlloc<U, F>& o) noexcept : id(o.id)
    {
    }
    T* allocate(std::size_t n) { return static_cast<T*>(vf_alloc(F, id, n * sizeof(T), alignof(T))); }
    void deallocate(T* p, std::size_t n) noexcept { vf_dealloc(F, id, p, n * sizeof(T)); }
    LedgerAlloc select_on_container_copy_construction() const { return LedgerAlloc(vf_soccc(id)); }
    friend bool operator==(const LedgerAlloc& a, const LedgerAlloc& b) noexcept
    {
        return is_always_equal::value || a.id == b.id;
    }
    friend bool operator!=(const LedgerAlloc& a, const LedgerAlloc& b) noexcept { return !(a == b); }
};

// unscoped enum with a fixed underlying type (source/stored type for conversions)
enum E32 : std::uint32_t
{
};

// a forward iterator that is not contiguous: yields every second item of an array (a "generated range")
template <class U>
struct StrideIt
{
    using value_type = U;
    using difference_type = std::ptrdiff_t;
    using pointer = const U*;
    using reference = const U&;
    using iterator_category = std::forward_iterator_tag;
    const U* p;
    const U& operator*() const noexcept { return *p; }
    StrideIt& operator++() noexcept
    {
        p += 2;
        return *this;
    }
    StrideIt operator++(int) noexcept
    {
        auto c = *this;
        p += 2;
        return c;
    }
    friend bool operator==(const StrideIt& a, const StrideIt& b) noexcept { return a.p == b.p; }
    friend bool operator!=(const StrideIt& a, const StrideIt& b) noexcept { return a.p != b.p; }
};

// Non-trivial value type: every special member reports to a hook.
struct Tracked
{
    unsigned v;
    Tracked() = delete;
    explicit Tracked(unsigned x) noexcept : v(x) { vf_obj_ctor(this, x); }
    Tracked(const Tracked& o) noexcept : v(o.v) { vf_obj_copy(this, &o); }
    Tracked(Tracked&& o) noexcept : v(o.v) { vf_obj_move(this, &o); }
    Tracked& operator=(const Tracked& o) noexcept
    {
        vf_obj_assign(this, &o);
        v = o.v;
        return *this;
    }
    Tracked& operator=(Tracked&& o) noexcept
    {
        vf_obj_move_assign(this, &o);
        v = o.v;
        return *this;
    }
    ~Tracked() { vf_obj_dtor(this); }
    friend bool operator==(const Tracked& a, const Tracked& b) noexcept { return a.v == b.v; }
    friend bool operator<(const Tracked& a, const Tracked& b) noexcept { return a.v < b.v; }
};
// Non-trivially copy/move-constructible but trivially destructible (relocation must still go through the move constructor).
struct TrackedM
{
    unsigned v;
    TrackedM() = delete;
    explicit TrackedM(unsigned x) noexcept : v(x) { vf_obj_ctor(this, x); }
    TrackedM(const TrackedM& o) noexcept : v(o.v) { vf_obj_copy(this, &o); }
    TrackedM(TrackedM&& o) noexcept : v(o.v) { vf_obj_move(this, &o); }
    TrackedM& operator=(const TrackedM& o) noexcept
    {
        vf_obj_assign(this, &o);
        v = o.v;
        return *this;
    }
    TrackedM& operator=(TrackedM&& o) noexcept
    {
        vf_obj_move_assign(this, &o);
        v = o.v;
        return *this;
    }
    ~TrackedM() = default;
};
}  // namespace vf
#endif
