// Instantiation TU: cntgs::detail::AllocatorAwarePointer over one LedgerAlloc trait combination (-DVF_F=0..15).
// No logic of its own.
#include "support.hpp"
#include <cntgs/contiguous.hpp>
using S8 = cntgs::detail::Aligned<8>;
using A = vf::LedgerAlloc<S8, VF_F>;
template class cntgs::detail::AllocatorAwarePointer<A>;
template void cntgs::detail::swap<A>(cntgs::detail::AllocatorAwarePointer<A>&, cntgs::detail::AllocatorAwarePointer<A>&);
