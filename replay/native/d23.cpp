// D23: MEMCPY_COMPATIBLE<T,U> holds for any two trivially copyable types of equal size (neither floating point nor bool), so a
// stored class type with a converting constructor receives the raw bytes of the source items instead of T(source item)
// whenever the source is a pointer, a contiguous iterator or a contiguous range; C arrays, generated ranges take the constructor.
#include <cntgs/contiguous.hpp>
#include <cstdint>
#include <cstdio>
#include <list>
#include <vector>
struct Fixed16  // 16.16 fixed point, constructible from a whole number
{
    std::int32_t raw;
    Fixed16(std::int32_t whole) noexcept : raw(whole << 16) {}
};
int main()
{
    int bad = 0;
    std::vector<std::int32_t> src{1, 2, 3};
    std::list<std::int32_t> lst{1, 2, 3};
    cntgs::ContiguousVector<cntgs::FixedSize<Fixed16>> v{2, {3}};
    v.emplace_back(src);   // contiguous range: memcpy
    v.emplace_back(lst);   // node-based range: constructor
    for (int e = 0; e < 2; ++e)
    {
        auto&& [s] = v[e];
        for (int k = 0; k < 3; ++k)
            if (s[k].raw != Fixed16(k + 1).raw) { ++bad; std::printf("element %d item %d: raw %d, expected %d\n", e, k, s[k].raw, Fixed16(k + 1).raw); }
    }
    std::printf("%d mismatches\n", bad);
    return bad != 0;
}
