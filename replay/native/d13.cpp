#include <cntgs/contiguous.hpp>
#include <cstdio>
#include <cstring>
#include <array>
int main() {
  using V = cntgs::ContiguousVector<cntgs::FixedSize<bool>>;
  V v{1, {2}};
  std::array<unsigned char, 2> src{2, 0};
  v.emplace_back(src);
  unsigned char stored; std::memcpy(&stored, cntgs::get<0>(v[0]).data(), 1);
  std::printf("bool constructed from unsigned char 2 is stored as byte %u (bool(2) is stored as 1)\n", (unsigned)stored);
  return stored != 1;
}
