#include <cntgs/contiguous.hpp>
#include <cstdio>
#include <cstdint>
int main() {
  using V = cntgs::ContiguousVector<cntgs::AlignAs<std::size_t, 8>, cntgs::VaryingSize<std::uint16_t>, cntgs::AlignAs<std::uint32_t, 8>>;
  V v{2, 64};
  std::uint16_t s1[2] = {1, 2}, s2[5] = {10, 11, 12, 13, 14};
  v.emplace_back(std::size_t{2}, s1, 7u);
  v.emplace_back(std::size_t{5}, s2, 9u);
  V::value_type a{v[0]}, b{v[1]};
  a = b;
  bool ok = cntgs::get<0>(a) == 5 && cntgs::get<1>(a).size() == 5 && cntgs::get<1>(a)[4] == 14 && cntgs::get<2>(a) == 9u;
  std::printf("after a = b: count %zu, last item %u, trailing field %u (expected 5, 14, 9)\n", (std::size_t)cntgs::get<0>(a), (unsigned)cntgs::get<1>(a)[4], cntgs::get<2>(a));
  return !ok;
}
