#include <cntgs/contiguous.hpp>
#include <cstdio>
#include <cstdlib>
template <class T> struct A { using value_type = T; int id; A(int i = 0) : id(i) {} template <class U> A(const A<U>& o) : id(o.id) {}
  T* allocate(std::size_t n) { return (T*)std::malloc(n * sizeof(T) + 16); } void deallocate(T* p, std::size_t) { std::free(p); }
  friend bool operator==(const A& a, const A& b) { return a.id == b.id; } friend bool operator!=(const A& a, const A& b) { return a.id != b.id; } };
int main() {
  using V = cntgs::ContiguousVector<cntgs::FixedSize<int>>;
  using E = cntgs::BasicContiguousElement<A<std::byte>, cntgs::FixedSize<int>>;
  V v{2, {2}}; int x[2] = {1, 2}, y[2] = {30, 40}; v.emplace_back(x); v.emplace_back(y);
  E a{v[0], A<std::byte>{1}};
  E t{std::move(a)};                 // t now owns a's former block
  E b{v[1], A<std::byte>{2}};
  a = std::move(b);                  // assignment into the moved-from element, unequal non-propagating allocators
  std::printf("t (untouched since its construction) holds %d %d, expected 1 2\n", cntgs::get<0>(t)[0], cntgs::get<0>(t)[1]);
  return !(cntgs::get<0>(t)[0] == 1 && cntgs::get<0>(t)[1] == 2);
}
