#include <cntgs/contiguous.hpp>
#include <cstdio>
#include <array>
struct B3 { unsigned char b[3]; }; struct B4 { unsigned char b[4]; };
int main() {
  using V = cntgs::ContiguousVector<B4, std::size_t, cntgs::VaryingSize<cntgs::AlignAs<B3, 32>>, cntgs::FixedSize<B3>>;
  V v{2, 2 * 2 * sizeof(B3), {31}};
  std::array<B3, 2> var{}; std::array<B3, 31> fix{};
  v.emplace_back(B4{}, std::size_t{2}, var, fix.data());
  v.emplace_back(B4{}, std::size_t{2}, var, fix.data());
  long used = v.data_end() - v.data_begin();
  std::printf("used %ld bytes, memory_consumption %zu\n", used, v.memory_consumption());
  return used > (long)v.memory_consumption();
}
