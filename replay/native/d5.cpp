#include <cntgs/contiguous.hpp>
#include <cstdio>
#include <cstring>
#include <cstdlib>
template <class T> struct J { using value_type = T; J() = default; template <class U> J(const J<U>&) {}
  T* allocate(std::size_t n) { void* p = std::malloc(n * sizeof(T) + 64); std::memset(p, 0x5A, n * sizeof(T) + 64); return (T*)p; }
  void deallocate(T* p, std::size_t) { std::free(p); }
  friend bool operator==(const J&, const J&) { return true; } friend bool operator!=(const J&, const J&) { return false; } };
int main() {
  using V = cntgs::BasicContiguousVector<cntgs::Options<cntgs::Allocator<J<char>>>, unsigned, cntgs::VaryingSize<int>>;
  int bad = 0;
  { V v{4, 64}; if (v.data_begin() != v.data_end()) { std::printf("fresh: data_begin != data_end (%p vs %p)\n", (void*)v.data_begin(), (void*)v.data_end()); bad = 1; } }
  { V v{4, 64}; v.clear(); if (v.data_begin() != v.data_end() || (std::size_t)(v.data_end() - v.data_begin()) > v.memory_consumption()) { std::printf("cleared fresh vector: data_end - data_begin = %ld\n", (long)(v.data_end() - v.data_begin())); bad = 1; }
    int x[2] = {1, 2}; v.emplace_back(2u, x); if (cntgs::get<1>(v[0])[1] != 2) bad = 1; }
  return bad;
}
