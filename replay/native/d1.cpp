#include <cntgs/contiguous.hpp>
#include <cstdio>
int main() {
  using V = cntgs::ContiguousVector<unsigned, cntgs::VaryingSize<int>>;
  int a[2] = {7, 8};
  V v{4, 64}; v.emplace_back(2u, a);
  v.reserve(8, 128);
  std::printf("size after reserve: %zu\n", v.size());
  V w{v};
  return !(v.size() == 1 && w.size() == 1 && cntgs::get<1>(v[0])[1] == 8);
}
