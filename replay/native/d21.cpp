// native demo D21: operator== of references coalesces consecutive FixedSize byte spans into one memcmp
#include <cntgs/contiguous.hpp>
#include <cstdio>
#include <cstdint>
#include <vector>
int main()
{
    using V = cntgs::ContiguousVector<cntgs::FixedSize<std::uint8_t>, cntgs::FixedSize<std::uint8_t>>;
    V a{1, {2, 1}}, b{1, {1, 2}};
    std::vector<std::uint8_t> ab{1, 2}, c{3}, x{1}, bc{2, 3};
    a.emplace_back(ab, c);    // ([1 2],[3])
    b.emplace_back(x, bc);    // ([1],[2 3])
    bool r = (a[0] == b[0]);
    std::printf("([1 2],[3]) == ([1],[2 3]): %d (must be 0: the field sizes differ)\n", r);
    return r ? 1 : 0;
}
