// native demo: vector-level operator== (C13)
#include <cntgs/contiguous.hpp>
#include <cstdint>
#include <cstdio>
#include <cstring>
#include <vector>
int main()
{
    int bad = 0;
    {   // (a) generic path: a strict prefix compares equal to the longer vector (3-iterator std::equal)
        using V = cntgs::ContiguousVector<cntgs::FixedSize<float>>;
        V a{2, {1}}, b{2, {1}};
        std::vector<float> x{1.f}, y{2.f};
        b.emplace_back(x);
        bool r1 = (a == b);
        a.emplace_back(x); b.emplace_back(y);
        bool r2 = (a == b);
        std::printf("(a) empty == {1}: %d   {1} == {1,2}: %d   (both must be 0)\n", r1, r2);
        bad += r1 + r2;
    }
    {   // (b) memcmp path: different fixed sizes, same bytes
        using V = cntgs::ContiguousVector<cntgs::FixedSize<unsigned>>;
        V a{2, {1}}, b{1, {2}};
        std::vector<unsigned> x{7}, y{9}, xy{7, 9};
        a.emplace_back(x); a.emplace_back(y); b.emplace_back(xy);
        bool r = (a == b);
        std::printf("(b) {[7],[9]} == {[7,9]}: %d (must be 0: 2 elements vs 1)\n", r);
        bad += r;
    }
    {   // (c) memcmp path: padding between fields takes part
        using V = cntgs::ContiguousVector<unsigned char, cntgs::AlignAs<unsigned, 4>>;
        V a{1}, b{1};
        std::memset(a.data(), 0xAA, 8); std::memset(b.data(), 0x55, 8);
        a.emplace_back((unsigned char)1, 2u); b.emplace_back((unsigned char)1, 2u);
        bool r = (a == b);
        std::printf("(c) {(1,2)} == {(1,2)} with different junk in the padding: %d (must be 1)\n", r);
        bad += !r;
    }
    {   // (d) memcmp path: padding between elements takes part
        using V = cntgs::ContiguousVector<cntgs::AlignAs<std::uint32_t, 4>, cntgs::VaryingSize<std::uint16_t>>;
        V a{2, 8}, b{2, 8};
        std::memset(a.data(), 0xAA, a.memory_consumption()); std::memset(b.data(), 0x55, b.memory_consumption());
        std::vector<std::uint16_t> x{5};
        a.emplace_back(1u, x); a.emplace_back(1u, x); b.emplace_back(1u, x); b.emplace_back(1u, x);
        bool r = (a == b);
        std::printf("(d) {(1,[5]),(1,[5])} == same with different junk between the elements: %d (must be 1)\n", r);
        bad += !r;
    }
    return bad ? 1 : 0;
}
