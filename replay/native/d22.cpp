// D22: a random-access iterator that is not contiguous (std::deque<T>::iterator, std::reverse_iterator<T*>) is taken for a
// contiguous one by cntgs::detail::CONTIGUOUS_ITERATOR_V and the source is read with one memcpy starting at operator->().
#include <cntgs/contiguous.hpp>
#include <cstdio>
#include <deque>
#include <iterator>
#include <vector>
int main()
{
    int bad = 0;
    {   // reverse_iterator over a plain array: items must be 5,4,3,2
        int src[6] = {0, 1, 2, 3, 4, 5};
        cntgs::ContiguousVector<cntgs::FixedSize<int>> v{1, {4}};
        v.emplace_back(std::make_reverse_iterator(src + 6));
        auto&& [s] = v[0];
        for (int k = 0; k < 4; ++k)
            if (s[k] != 5 - k) { ++bad; std::printf("reverse_iterator: item %d is %d, expected %d\n", k, s[k], 5 - k); }
    }
    {   // deque iterator across a chunk boundary (libstdc++: 128 ints per chunk)
        std::deque<int> d;
        for (int i = 0; i < 300; ++i) d.push_back(i);
        cntgs::ContiguousVector<cntgs::FixedSize<int>> v{1, {200}};
        v.emplace_back(d.begin() + 60);
        auto&& [s] = v[0];
        for (int k = 0; k < 200; ++k)
            if (s[k] != 60 + k) { ++bad; if (bad < 8) std::printf("deque iterator: item %d is %d, expected %d\n", k, s[k], 60 + k); }
    }
    std::printf("%d mismatches\n", bad);
    return bad != 0;
}
