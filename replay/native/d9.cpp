#include <cntgs/contiguous.hpp>
int main() {
  using V = cntgs::ContiguousVector<cntgs::FixedSize<int>>;
  V a{2, {3}}; int x[3] = {1,2,3}; a.emplace_back(x);
  V b{a};
  V c{1, {1}}; c = a;
  return !(b.size() == 1 && c.size() == 1 && cntgs::get<0>(b[0])[2] == 3 && cntgs::get<0>(c[0])[1] == 2);
}
