#include <cntgs/contiguous.hpp>
#include <cstdio>
#include <cstdlib>
template <class T> struct A { using value_type = T; int id; A(int i = 0) : id(i) {} template <class U> A(const A<U>& o) : id(o.id) {}
  T* allocate(std::size_t n) { return (T*)std::aligned_alloc(64, ((n * sizeof(T) + 63) / 64 + 1) * 64); } void deallocate(T* p, std::size_t) { std::free(p); }
  friend bool operator==(const A& a, const A& b) { return a.id == b.id; } friend bool operator!=(const A& a, const A& b) { return a.id != b.id; } };
int main() {
  using V = cntgs::BasicContiguousVector<cntgs::Options<cntgs::Allocator<A<char>>>, cntgs::FixedSize<cntgs::AlignAs<double, 8>>>;
  V big{4, {4}, A<char>{1}}; V small{1, {4}, A<char>{2}};
  std::size_t src = big.memory_consumption();
  small = std::move(big);
  std::printf("source consumed %zu bytes, target now consumes %zu bytes\n", src, small.memory_consumption());
  return small.memory_consumption() > src;
}
