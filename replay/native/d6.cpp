// D6: erase of a small element in front of a larger one in a vector with a VaryingSize parameter of a non-trivial type:
// the element-wise relocation constructs the target objects over source objects that are moved-from but still alive,
// then destroys the "source" objects, which by then are (in part) the freshly constructed target objects.
#include <cntgs/contiguous.hpp>
#include <cstdint>
#include <cstdio>
#include <map>
#include <vector>
static std::map<const void*, int> live;   // address -> 1 alive
static int errors = 0;
struct T
{
    unsigned v;
    explicit T(unsigned x) : v(x) { born(); }
    T(const T& o) : v(o.v) { born(); }
    T(T&& o) noexcept : v(o.v) { o.v = 0xDEAD; born(); }
    T& operator=(const T& o) { v = o.v; return *this; }
    T& operator=(T&& o) noexcept { v = o.v; o.v = 0xDEAD; return *this; }
    ~T() { if (!live[this]) { ++errors; std::printf("destroyed while not alive: %p\n", (void*)this); } live[this] = 0; }
    void born() { if (live[this]) { ++errors; std::printf("constructed over an alive object: %p\n", (void*)this); } live[this] = 1; }
};
int main()
{
    {
        cntgs::ContiguousVector<std::uint32_t, cntgs::VaryingSize<T>> v{3, 64};
        std::vector<T> a{T{1}}, b{T{10}, T{11}, T{12}, T{13}, T{14}};
        v.emplace_back(1u, a);
        v.emplace_back(5u, b);
        v.erase(v.begin());
        auto&& [cnt, s] = v[0];
        unsigned expect[5] = {10, 11, 12, 13, 14};
        for (int k = 0; k < 5; ++k)
            if (s[k].v != expect[k]) { ++errors; std::printf("item %d is %u, expected %u\n", k, s[k].v, expect[k]); }
        int alive_in_vector = 0;
        for (int k = 0; k < 5; ++k) alive_in_vector += live[&s[k]];
        if (alive_in_vector != 5) { ++errors; std::printf("%d of 5 held objects are alive\n", alive_in_vector); }
    }
    std::printf("%d errors\n", errors);
    return errors != 0;
}
