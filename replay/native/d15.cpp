#include <cntgs/contiguous.hpp>
#include <cstdio>
#include <map>
#include <cstdlib>
static std::map<void*, int> owner; static int bad = 0;
template <class T> struct A {
  using value_type = T; int id;
  using propagate_on_container_move_assignment = std::true_type;
  using is_always_equal = std::false_type;
  A(int i = 0) : id(i) {}
  template <class U> A(const A<U>& o) : id(o.id) {}
  T* allocate(std::size_t n) { void* p = std::malloc(n * sizeof(T) + 1); owner[p] = id; return (T*)p; }
  void deallocate(T* p, std::size_t) { if (owner[p] != id) { std::printf("block of allocator %d returned through allocator %d\n", owner[p], id); bad = 1; } owner.erase(p); std::free(p); }
  friend bool operator==(const A& a, const A& b) { return a.id == b.id; }
  friend bool operator!=(const A& a, const A& b) { return a.id != b.id; }
};
int main() {
  using V = cntgs::BasicContiguousVector<cntgs::Options<cntgs::Allocator<A<int>>>, cntgs::FixedSize<int>>;
  { V a{2, {3}, A<int>{1}}; V b{2, {3}, A<int>{2}}; a = std::move(b); }
  return bad;
}
