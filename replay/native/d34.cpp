#include <cntgs/contiguous.hpp>
#include <cstdio>
int main(int argc, char** argv) {
  using V = cntgs::ContiguousVector<unsigned, cntgs::VaryingSize<int>>;
  int a[1] = {1}, b[3] = {2, 3, 4}, c[2] = {5, 6};
  int bad = 0;
  { // D4: erase the last element of a full vector
    V v{2, 16}; v.emplace_back(1u, a); v.emplace_back(3u, b);
    v.erase(v.begin() + 1);
    if (v.size() != 1 || cntgs::get<1>(v[0])[0] != 1) bad |= 1;
  }
  { // D3: erase an element whose extent differs from the last element's, then emplace_back
    V v{3, 24}; v.emplace_back(1u, a); v.emplace_back(3u, b); v.emplace_back(2u, c);
    v.erase(v.begin());
    long used = v.data_end() - v.data_begin();
    long need = v[1].data_end() - v.data_begin();
    if (used != need) { std::printf("after erase: data_end at %ld, last element ends at %ld\n", used, need); bad |= 2; }
    v.emplace_back(1u, a);
    if (cntgs::get<1>(v[1])[0] != 5 || cntgs::get<1>(v[1])[1] != 6 || cntgs::get<1>(v[0])[2] != 4) { std::printf("element clobbered by emplace_back after erase\n"); bad |= 4; }
  }
  return bad;
}
