#include <cntgs/contiguous.hpp>
#include <cstdio>
int main() {
  using V = cntgs::ContiguousVector<cntgs::FixedSize<float>>;
  V a{1, {2}}, b{1, {3}};
  float x[2] = {1.f, 2.f}, y[3] = {1.f, 2.f, 3.f};
  a.emplace_back(x); b.emplace_back(y);
  bool r = a[0] == b[0];
  std::printf("reference with 2 floats == reference with 3 floats (equal prefix): %d\n", (int)r);
  return r;
}
