#include <cntgs/contiguous.hpp>
#include <cstdio>
#include <cstdlib>
#include <set>
#include <new>
static std::set<void*> live; static int fail_at = -1, calls = 0, bad = 0;
template <class T> struct A { using value_type = T; A() = default; template <class U> A(const A<U>&) {}
  T* allocate(std::size_t n) { if (++calls == fail_at) throw std::bad_alloc{}; void* p = std::malloc(n * sizeof(T) + 8); live.insert(p); return (T*)p; }
  void deallocate(T* p, std::size_t) { if (!live.erase(p)) { std::printf("double free of %p\n", (void*)p); bad = 1; return; } std::free(p); }
  friend bool operator==(const A&, const A&) { return true; } friend bool operator!=(const A&, const A&) { return false; } };
int main() {
  using V = cntgs::BasicContiguousVector<cntgs::Options<cntgs::Allocator<A<char>>>, cntgs::FixedSize<int>>;
  {
    V big{4, {2}}; V small{1, {2}};
    int x[2] = {1, 2}; big.emplace_back(x); small.emplace_back(x);
    fail_at = calls + 1;                       // the next allocation fails
    try { small = big; } catch (const std::bad_alloc&) { std::printf("copy assignment threw\n"); }
    fail_at = -1;
  }                                            // both vectors are destroyed here
  if (!live.empty()) { std::printf("%zu block(s) leaked\n", live.size()); bad = 1; }
  return bad;
}
