#!/usr/bin/env python3
"""writes MANIFEST.json from units.PROPERTY_META (single source of truth for what is claimed)"""
import json, os, sys
HERE = os.path.dirname(os.path.abspath(__file__)); VERIF = os.path.dirname(HERE)
sys.path.insert(0, VERIF)
import units
props = [json.loads(l) for l in open(os.path.join(VERIF, 'properties.jsonl'))]
checks = []; na = []
for p in props:
    pid = p['id']; m = units.PROPERTY_META.get(pid)
    if not m or not m.get('claimed'):
        na.append({'property_id': pid, 'reason': (m or {}).get('na_reason', 'not yet under contract in this framework: no obligation is generated for it, so nothing is claimed')})
        continue
    checks.append({
        'property_id': pid,
        'quick_cmd': './check %s --tier quick' % pid,
        'thorough_cmd': './check %s --tier thorough' % pid,
        'evidence_file': 'evidence/%s.json' % pid,
        'replay_cmd_template': './check %s --replay {path}' % pid,
        'engine': 'cbmc-dfcc',
        'level_claimed': {'category': m.get('level', 'proof'), 'text': m['text'], 'design_ref': m.get('design_ref', 'DESIGN.md section 6')},
        'level_note': m['note'],
        'technique': m.get('technique', 'contract-based deductive verification: CBMC 6.11 dfcc function contracts enforced on the C lowering of the real headers'),
    })
man = {
    'version': 1,
    'setup_cmd': 'python3 tools/selfcheck.py',
    'hooks': {'guard': 'TRADIAS_CONTIGUOUS_VERIF', 'enable': 'no source hooks are needed: instantiation TUs under /verif/inst are compiled with -DTRADIAS_CONTIGUOUS_VERIF against /repo/src',
              'baseline_off_cmd': 'cmake --build /repo/_build -j8 -- -k 0 ; ctest --test-dir /repo/_build -j8 --timeout 900', 'source_commits': [], 'add_only': True},
    'engines': [{'name': 'cbmc-dfcc', 'path': 'tools/check.py', 'serves_properties': [c['property_id'] for c in checks],
                 'kind_free_text': 'clang -O0 LLVM IR of the real headers -> generic C lowering (tools/ll2c.py) -> CBMC function contracts (goto-instrument --dfcc --enforce-contract / --replace-call-with-contract)'}],
    'checks': checks,
    'not_applicable': na,
    'notes': 'See DESIGN.md. Exit codes of ./check: 0 held (KNOWN-FINDING lines possible), 1 violation, 2 undecided (infrastructure; never a violation).',
}
json.dump(man, open(os.path.join(VERIF, 'MANIFEST.json'), 'w'), indent=1)
print('claimed:', [c['property_id'] for c in checks])
