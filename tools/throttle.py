"""memory-aware start of solver processes: 16 parallel units of up to 10 GB each do not fit into the machine, so a cbmc
process is only started while enough memory is available (the wait is not part of the unit's timeout).
Installed by check.py / runu.py as a wrapper of vf.run (vf.py itself is part of the build-cache key and stays untouched)."""
import time, threading
import vf

MIN_AVAILABLE_GB = 14
_lock = threading.Lock()


def _avail_gb():
    try:
        for ln in open('/proc/meminfo'):
            if ln.startswith('MemAvailable:'):
                return int(ln.split()[1]) / 1048576.0
    except OSError:
        pass
    return 1e9


def install():
    if getattr(vf, '_throttled', False):
        return
    orig = vf.run

    def run(cmd, timeout, *args, **kwargs):
        if cmd and cmd[0] == 'cbmc':
            with _lock:                     # one starter at a time, so that a burst does not pass the gate together
                t0 = time.time()
                while _avail_gb() < MIN_AVAILABLE_GB and time.time() - t0 < 1800:
                    time.sleep(3)
                if _avail_gb() < 32:
                    time.sleep(5)           # a solver grows after its start: space the starts out while memory is tight
        return orig(cmd, timeout, *args, **kwargs)
    vf.run = run
    vf._throttled = True
