#!/usr/bin/env python3
"""C17: exception variants of contract texts.  A contract written for normal return is turned into one that covers
both outcomes: every postcondition is guarded by "no exception pending", cntgs_exc is added to the assigns clause, and
the exceptional postconditions given per function are appended."""
import re


def exc_variant(text, per_function):
    """per_function: {macro name of the function (e.g. 'F_RESERVE'): [ensures lines for the exceptional exit]}"""
    out = text
    for fn, lines in per_function.items():
        m = re.search(r'\n[A-Za-z_][A-Za-z0-9_ \*]*\b%s\(' % re.escape(fn), out)
        if not m:
            raise ValueError('exception variant: contract of %s not found' % fn)
        end = out.index('\n;', m.start())
        block = out[m.start():end]
        def guard(mm):
            inner = mm.group(1)
            return '__CPROVER_ensures(cntgs_exc != 0 || (%s))%s' % (inner, mm.group(2) or '')
        block = re.sub(r'__CPROVER_ensures\((.*)\)( /\*.*\*/)?$', guard, block, flags=re.M)
        block = re.sub(r'__CPROVER_assigns\(', '__CPROVER_assigns(cntgs_exc, ', block, count=1)
        j = block.index('\n__CPROVER_assigns(')
        block = block[:j] + '\n' + '\n'.join(lines) + block[j:]
        out = out[:m.start()] + block + out[end:]
    return out
