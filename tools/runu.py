#!/usr/bin/env python3
"""debug helper: run the units whose id matches a glob and print their obligations"""
import sys, os, fnmatch, json
sys.path.insert(0, os.path.dirname(os.path.abspath(__file__)))
sys.path.insert(0, os.path.dirname(os.path.dirname(os.path.abspath(__file__))))
import vf, units
import throttle
throttle.install()
pat = sys.argv[1]; tier = sys.argv[2] if len(sys.argv) > 2 else 'thorough'
us = [u for u in units.units(tier) if fnmatch.fnmatch(u['id'], pat)]
vf.prune_cache(1)
rs = vf.run_units(us, os.path.join(vf.cache_dir(), 'work'))
for r in rs:
    n = len(r['obligations']); bad = [o for o in r['obligations'] if o['status'] == 'FAILURE']
    print('%-40s %-9s %4d obligations %3d failed  %.1fs %s' % (r['id'], r['status'], n, len(bad), r.get('wall_s', 0), r['reason'][:300]))
    for o in bad:
        print('      FAIL [%s] %s :: %s' % (o['class'], o['function'][:70], o['desc'][:200]))
