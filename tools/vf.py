#!/usr/bin/env python3
"""Core of the verification driver: extraction (clang IR -> C), contract-template instantiation,
CBMC/dfcc runs with resource limits, result parsing.  Used by tools/check.py."""
import hashlib, json, os, re, resource, subprocess, sys, time, shutil, fnmatch
from concurrent.futures import ThreadPoolExecutor

VERIF = os.path.dirname(os.path.dirname(os.path.abspath(__file__)))
REPO = os.environ.get('VERIF_REPO', '/repo')
BUILD = os.path.join(VERIF, 'build')
sys.path.insert(0, os.path.join(VERIF, 'tools'))
import ll2c
import threading
_ll2c_lock = threading.Lock()

CLANG_FLAGS = ['-std=c++17', '-O0', '-DNDEBUG', '-fno-rtti', '-fno-discard-value-names', '-Xclang', '-disable-llvm-passes',
               '-Wno-everything', '-fno-access-control', '-DTRADIAS_CONTIGUOUS_VERIF', '-I' + os.path.join(REPO, 'src'), '-I' + os.path.join(VERIF, 'inst'), '-S', '-emit-llvm']
CBMC_TIMEOUT = int(os.environ.get('VERIF_CBMC_TIMEOUT', '900'))
CBMC_MEM_GB = int(os.environ.get('VERIF_CBMC_MEM_GB', '10'))


class Undecided(Exception):
    """infrastructure problem: never reported as a violation (exit 2)"""


def _sha(paths, extra=''):
    h = hashlib.sha256(extra.encode())
    for p in sorted(paths):
        h.update(p.encode())
        with open(p, 'rb') as f:
            h.update(f.read())
    return h.hexdigest()[:16]


def tree_files(root, exts=None):
    out = []
    for d, _, fs in os.walk(root):
        for f in fs:
            if exts is None or os.path.splitext(f)[1] in exts:
                out.append(os.path.join(d, f))
    return out


_cache_key = None


def cache_dir():
    """build directory keyed by the content of /repo/src and of the extraction machinery: edits to /repo always rebuild"""
    global _cache_key
    if _cache_key is None:
        files = tree_files(os.path.join(REPO, 'src')) + tree_files(os.path.join(VERIF, 'inst')) + \
            [os.path.join(VERIF, 'tools', 'll2c.py'), os.path.join(VERIF, 'tools', 'vf.py'), os.path.join(VERIF, 'tools', 'layout.py'), os.path.join(VERIF, 'tools', 'vec.py'), os.path.join(VERIF, 'tools', 'cmp.py'), os.path.join(VERIF, 'tools', 'conv.py'), os.path.join(VERIF, 'tools', 'refops.py'), os.path.join(VERIF, 'tools', 'elem.py'), os.path.join(VERIF, 'tools', 'excv.py')]
        _cache_key = _sha(files)
    d = os.path.join(BUILD, _cache_key)
    os.makedirs(d, exist_ok=True)
    try:
        os.utime(d, None)
    except OSError:
        pass
    return d


def prune_cache(keep=3, min_age_s=5400):
    """remove build directories of other source states; never one that was used in the last 90 minutes"""
    if not os.path.isdir(BUILD):
        return
    ds = [os.path.join(BUILD, x) for x in os.listdir(BUILD) if re.fullmatch(r'[0-9a-f]{16}', x)]
    ds.sort(key=os.path.getmtime, reverse=True)
    now = time.time()
    for d in ds[keep:]:
        if now - os.path.getmtime(d) > min_age_s:
            shutil.rmtree(d, ignore_errors=True)


def _limits():
    resource.setrlimit(resource.RLIMIT_AS, (CBMC_MEM_GB << 30, CBMC_MEM_GB << 30))


def run(cmd, timeout, cwd=None, limit=True):
    t0 = time.time()
    try:
        p = subprocess.run(cmd, cwd=cwd, capture_output=True, text=True, timeout=timeout, preexec_fn=_limits if limit else None)
        return p.returncode, p.stdout, p.stderr, time.time() - t0
    except subprocess.TimeoutExpired as e:
        return 'timeout', (e.stdout or b'').decode('utf8', 'replace') if isinstance(e.stdout, bytes) else (e.stdout or ''), '', time.time() - t0


def build_tu(tu, defines=(), exceptions=False, gen=None):
    """compile inst/<tu>.cpp (or the generated TU text `gen`) against /repo's current headers, translate to C.
    Returns (c_path, names dict)."""
    d = cache_dir()
    tag = tu + ''.join('_' + re.sub(r'[^A-Za-z0-9]', '', x) for x in defines) + ('_exc' if exceptions else '')
    cpath = os.path.join(d, tag + '.c')
    npath = os.path.join(d, tag + '.names.json')
    if os.path.exists(cpath) and os.path.exists(npath):
        return cpath, json.load(open(npath))
    ll = os.path.join(d, tag + '.ll')
    srcp = os.path.join(VERIF, 'inst', tu + '.cpp')
    if gen is not None:
        srcp = os.path.join(d, tag + '.cpp')
        open(srcp, 'w').write(gen)
    cmd = ['clang++'] + CLANG_FLAGS + (['-fexceptions'] if exceptions else ['-fno-exceptions']) + ['-D' + x for x in defines] + [srcp, '-o', ll]
    rc, out, err, _ = run(cmd, 600, limit=False)
    if rc != 0:
        raise Undecided('instantiation TU %s does not compile against /repo (exit %s):\n%s' % (tag, rc, err[-3000:]))
    try:
        with _ll2c_lock:
            c, nm = ll2c.translate_text(open(ll).read())
    except Exception as e:
        raise Undecided('translator cannot handle %s: %s' % (tag, e))
    tmp = cpath + '.tmp%d' % os.getpid()
    open(tmp, 'w').write(c)
    os.replace(tmp, cpath)
    json.dump(nm, open(npath, 'w'))
    return cpath, nm


class Resolver:
    """resolves @F{regex}, @T{regex|i}, @R{regex} placeholders against the demangled names of one translated TU"""

    def __init__(self, cpath, names):
        self.names = names
        self.protos = {}
        ctext = open(cpath).read()
        self.consts = {m.group(1): m.group(2) for m in re.finditer(r'^const uint64_t g_([A-Za-z0-9_]+) = \(\(uint64_t\)(\d+)ull\);', ctext, re.M)}
        for m in re.finditer(r'^(.*?) (f_[A-Za-z0-9_]+)\((.*)\); /\* (?:extern )?(.*) \*/$', ctext, re.M):
            self.protos[m.group(2)] = (m.group(1), m.group(3))

    def fn(self, rx):
        ms = [c for c, d in self.names['funcs'].items() if re.search(rx, d)]
        if len(ms) != 1:
            raise Undecided('contract attachment: %d functions match /%s/ (%s)' % (len(ms), rx, [self.names['funcs'][m] for m in ms][:4]))
        return ms[0]

    def fn_opt(self, rx):
        ms = [c for c, d in self.names['funcs'].items() if re.search(rx, d)]
        return ms

    def ptype(self, rx, i):
        f = self.fn(rx)
        ret, ps = self.protos[f]
        if i == 'r':
            return ret
        # split on commas not inside parentheses
        parts = [x.strip() for x in ps.split(',')]
        return parts[int(i)]

    def subst(self, text, vars):
        for k, v in vars.items():
            text = text.replace('{{%s}}' % k, str(v))
        left = re.findall(r'\{\{[A-Za-z0-9_]+\}\}', text)
        if left:
            raise Undecided('template variable(s) not set: %s' % sorted(set(left)))
        def const(m):
            if m.group(1) not in self.consts:
                raise Undecided('constant %s is not exported by the instantiation TU' % m.group(1))
            return self.consts[m.group(1)] + 'ull'
        text = re.sub(r'@K\{(\w+)\}', const, text)
        text = re.sub(r'@T\{((?:[^{}]|\{[^{}]*\})*)\|(\w+)\}', lambda m: self.ptype(m.group(1), m.group(2)), text)
        text = re.sub(r'@F\{((?:[^{}]|\{[^{}]*\})*)\}', lambda m: self.fn(m.group(1)), text)
        return text


def parse_cbmc_json(out):
    """returns (results list, messages) from cbmc --json-ui output"""
    try:
        js = json.loads(out)
    except Exception:
        return None, out[-2000:]
    res = None
    msgs = []
    for item in js:
        if 'result' in item:
            res = item['result']
        if 'messageText' in item:
            msgs.append(item['messageText'])
    return res, '\n'.join(msgs)


def norm_obligation(r):
    """stable identity of an obligation: (function, class, description) with running numbers removed"""
    prop = r.get('property', '')
    fn = r.get('sourceLocation', {}).get('function', prop.rsplit('.', 2)[0])
    cls = prop.split('.')[-2] if prop.count('.') >= 2 else prop
    desc = re.sub(r'\$\d+|#\d+|_wrapper', '', r.get('description', ''))
    return fn, cls, desc


def run_unit(u, workdir):
    """u: dict with keys id, tu, defines, exceptions, template, vars, entry, enforce, replace, flags, unwind.
    Returns dict(status='ok'|'fail'|'undecided', obligations=[...], ...)"""
    t0 = time.time()
    res = {'id': u['id'], 'status': 'undecided', 'obligations': [], 'reason': '', 'props': u.get('props', [])}
    try:
        cpath, names = build_tu(u['tu'], u.get('defines', ()), u.get('exceptions', False), u.get('gen'))
        rs = Resolver(cpath, names)
        vars = dict(u.get('vars', {}))
        vars['TU_C'] = cpath
        tpl = u['template_text'] if 'template_text' in u else open(os.path.join(VERIF, 'contracts', u['template'])).read()
        src = rs.subst(tpl, vars)
        enforce = rs.subst(u['enforce'], vars) if u.get('enforce') else None
        replace = [rs.subst(x, vars) for x in u.get('replace', [])]
        entry = rs.subst(u['entry'], vars)
    except Undecided as e:
        res['reason'] = str(e)
        return res
    base = os.path.join(workdir, re.sub(r'[^A-Za-z0-9_.-]', '_', u['id']))
    # memo: a unit whose generated source (it names the TU inside the build directory keyed by /repo/src, inst/ and tools/), prelude,
    # entry, contracts and options are byte-identical to a decided earlier run is not solved again (units serve several properties).
    # Only decided results (ok / fail) are kept; VERIF_NO_MEMO=1 disables it.
    h = hashlib.sha256()
    for part in (src, open(os.path.join(VERIF, 'contracts', 'prelude.c')).read(), open(os.path.join(VERIF, 'contracts', 'prelude.h')).read(),
                 json.dumps([u['id'], entry, enforce, replace, u.get('cdefs', []), u.get('unwind'), u.get('flags', []), u.get('timeout', CBMC_TIMEOUT),
                             u.get('expect_classes'), CBMC_MEM_GB, 'cbmc-6.11.0'])):
        h.update(part.encode()); h.update(b'\0')
    memo = os.path.join(cache_dir(), 'results', h.hexdigest()[:32] + '.json')
    if not os.environ.get('VERIF_NO_MEMO') and os.path.exists(memo):
        try:
            old = json.load(open(memo))
            if old.get('status') in ('ok', 'fail') and os.path.exists(old.get('gb', '')):
                old['memo'] = True; old['props'] = u.get('props', [])
                return old
        except (ValueError, OSError):
            pass
    res['_memo'] = memo
    open(base + '.c', 'w').write(src)
    demap = names['funcs']
    res['function'] = demap.get(enforce, enforce)
    res['replaced'] = [demap.get(x, x) for x in replace]
    rc, out, err, _ = run(['goto-cc', '--function', entry, '-I', os.path.join(VERIF, 'contracts')] + ['-D' + d for d in u.get('cdefs', [])] + [base + '.c',
                           os.path.join(VERIF, 'contracts', 'prelude.c'), '-o', base + '.gb'], 300)
    if rc != 0:
        res['reason'] = 'goto-cc failed: ' + (err + out)[-1500:]
        return res
    gi = ['goto-instrument', '--no-malloc-may-fail', '--dfcc', entry]
    if enforce:
        gi += ['--enforce-contract', enforce]
    for r in replace:
        gi += ['--replace-call-with-contract', r]
    gi += [base + '.gb', base + '.i.gb']
    rc, out, err, _ = run(gi, 600)
    if rc != 0:
        res['reason'] = 'goto-instrument failed: ' + (err + out)[-1500:]
        return res
    cb = ['cbmc', base + '.i.gb', '--no-malloc-may-fail', '--bounds-check', '--pointer-check', '--json-ui', '--no-standard-checks',
          '--pointer-overflow-check'] if False else ['cbmc', base + '.i.gb', '--no-malloc-may-fail', '--bounds-check', '--pointer-check', '--json-ui']
    if u.get('unwind'):
        cb += ['--object-bits', '12']   # unwound loops create more than 2^8 addressed objects
        cb += ['--unwind', str(u['unwind']), '--unwinding-assertions']
    cb += u.get('flags', [])
    res['checker_cmd'] = ' '.join(gi[:-2]) + ' ... && ' + ' '.join(cb)
    # back ends: cadical first (minisat needed >300 s where cadical needs 7 s on the same formula), then the others
    tmo = u.get('timeout', CBMC_TIMEOUT)
    for be, share in (('--sat-solver cadical', 0.5), ('--external-sat-solver kissat', 0.25), ('', 0.25)):
        rc, out, err, secs = run(cb + be.split(), max(30, int(tmo * share)))
        res['backend'] = be.split()[-1] if be else 'minisat2'
        if rc != 'timeout':
            break
    res['solver_s'] = round(secs, 2)
    if rc == 'timeout':
        res['reason'] = 'cbmc timeout after %ds on all back ends' % tmo
        return res
    if rc not in (0, 10):
        res['reason'] = 'cbmc ended abnormally (exit %s; memory limit %d GB?): %s' % (rc, CBMC_MEM_GB, (err or out)[-600:])
        return res
    results, msgs = parse_cbmc_json(out)
    if results is None:
        res['reason'] = 'cbmc produced no result (exit %s): %s' % (rc, (msgs or err)[-1500:])
        return res
    if re.search(r'ignoring (forall|exists|loop)', msgs or ''):
        res['reason'] = 'cbmc ignored a quantifier or loop contract'
        return res
    obs = []
    srclines = src.split('\n')
    for r in results:
        fn, cls, desc = norm_obligation(r)
        loc = r.get('sourceLocation', {})
        if cls in ('postcondition', 'precondition', 'assertion') and loc.get('file', '').endswith(os.path.basename(base) + '.c'):
            ln = int(loc.get('line', 0))
            m = re.search(r'/\*\s*(.*?)\s*\*/\s*$', srclines[ln - 1]) if 0 < ln <= len(srclines) else None
            if m is None and cls == 'postcondition' and 0 < ln <= len(srclines) and not srclines[ln - 1].startswith('__CPROVER_ensures'):
                # goto-cc sometimes reports the line of the preceding requires clause: take the first ensures line that follows
                for k2 in range(ln, min(ln + 3, len(srclines))):
                    if srclines[k2].startswith('__CPROVER_ensures'):
                        m = re.search(r'/\*\s*(.*?)\s*\*/\s*$', srclines[k2])
                        break
            if m and cls != 'assertion':
                desc = m.group(1)
        for cn, dn in demap.items():
            if cn in desc:
                desc = desc.replace(cn, dn)
        obs.append({'function': demap.get(fn, fn), 'class': cls, 'desc': desc, 'status': r['status'], 'property': r['property']})
    res['obligations'] = obs
    need = u.get('expect_classes', ['postcondition'] if enforce else [])
    have = {o['class'] for o in obs}
    missing = [c for c in need if c not in have]
    if not obs or missing:
        res['reason'] = 'vacuity guard: no obligations of class %s generated' % missing
        return res
    # CBMC reports UNKNOWN for properties it did not decide in a run that found failures; they are neither discharged
    # nor violated.  UNKNOWN without any FAILURE means the run is undecided.
    nfail = sum(1 for o in obs if o['status'] == 'FAILURE')
    nunk = sum(1 for o in obs if o['status'] not in ('SUCCESS', 'FAILURE'))
    if nfail == 0 and nunk:
        res['reason'] = '%d obligations left UNKNOWN by cbmc' % nunk
        return res
    res['status'] = 'fail' if nfail else 'ok'
    res['wall_s'] = round(time.time() - t0, 2)
    res['gb'] = base + '.i.gb'
    res['cbmc_cmd'] = cb
    memo = res.pop('_memo', None)
    if memo:
        try:
            os.makedirs(os.path.dirname(memo), exist_ok=True)
            tmp = memo + '.%d.tmp' % os.getpid()
            json.dump(res, open(tmp, 'w')); os.replace(tmp, memo)
        except OSError:
            pass
    return res


def trace_of(res, prop, timeout=300):
    cb = [x for x in res['cbmc_cmd'] if x != '--json-ui'] + ['--property', prop, '--trace', '--trace-hex' if False else '--compact-trace']
    rc, out, err, _ = run(cb, timeout)
    return out if rc != 'timeout' else 'trace generation timed out'


def cex_inputs(trace):
    """the ghost/witness variables and harness choices of a CBMC counterexample trace (last value of each)"""
    vals = {}
    for m in re.finditer(r'^\s+(?:\d+:\s+)?((?:g_[A-Za-z0-9_\.\[\]l]+)|fs\d|vc\d|n|cap|size|units|used|id|k|off|back|cntgs_exc)=([^ \n]+)', trace, re.M):
        vals[m.group(1)] = m.group(2)
    return vals


def run_units(units, workdir, jobs=16):
    os.makedirs(workdir, exist_ok=True)
    # build TUs first (deduplicated) so that parallel units do not race on the cache
    seen = {}
    for u in units:
        k = (u['tu'], tuple(u.get('defines', ())), u.get('exceptions', False))
        seen.setdefault(k, u)
    def b(k):
        try:
            build_tu(*k, gen=seen[k].get('gen'))
        except Undecided:
            pass
    with ThreadPoolExecutor(jobs) as ex:
        list(ex.map(b, list(seen)))
    with ThreadPoolExecutor(jobs) as ex:
        def ru(u):
            r = run_unit(u, workdir)
            r.pop('_memo', None)
            return r
        return list(ex.map(ru, units))
