#!/bin/bash
# usage: confirm_mutant.sh <seeded dir> <scratch worktree>   -- confirms: demo passes unchanged, patch applies, suite passes, demo fails
d=$1; wt=$2; out=$d/confirm.log
cd $wt && git checkout -q -- . && git clean -fdq -e _build
{
echo "== demo on unchanged tree"
g++ -std=c++17 -DNDEBUG -I$wt/src $d/demo.cpp -o /tmp/demo_$$ 2>&1 | tail -3; /tmp/demo_$$ >/dev/null 2>&1; echo "demo_unchanged_exit=$?"
echo "== apply"; git apply $d/patch.diff && echo applied=1 || echo applied=0
echo "== build+test"
cmake --build _build -j16 -- -k 0 2>&1 | grep -E "^FAILED" | sed 's/ .*//' | sort | uniq -c
ctest --test-dir _build -j16 --timeout 900 2>&1 | grep -E "tests passed|tests failed"
echo "== demo with patch"
g++ -std=c++17 -DNDEBUG -I$wt/src $d/demo.cpp -o /tmp/demo_$$ 2>&1 | tail -3; /tmp/demo_$$ >/dev/null 2>&1; echo "demo_patched_exit=$?"
} > $out 2>&1
git checkout -q -- . ; rm -f /tmp/demo_$$
grep -E "exit=|applied=|tests passed" $out | tr '\n' ' '; echo
