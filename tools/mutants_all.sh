#!/bin/bash
# runs every seeded mutant against the check of the property it was written for (plus extra props given in seeded/<m>/extra_props)
cd /verif
for d in seeded/*/; do m=$(basename $d); p=${m%-*}; 
  grep -q "\"$p\"" <(python3 -c "import json;print(json.dumps([c['property_id'] for c in json.load(open('MANIFEST.json'))['checks']]))") || { echo "== $m: property $p not claimed"; continue; }
  LINES_MAX=3 tools/try_mutant.sh $m $p $(cat $d/extra_props 2>/dev/null)
done
