#!/usr/bin/env python3
"""Native replay of counterexamples against the real code through the public API.
Implemented recipe: `layout` (units lay.*): a C++ program generated for the parameter list builds a
ContiguousVector with the counterexample's fixed sizes, emplaces two elements with the counterexample's varying
counts on a block whose base is aligned to exactly the storage alignment plus SA*k, and prints every field address;
this script compares them with the greedy oracle (order, alignment, tight packing, element start) and checks the
N-element/B-byte budget (data_end - data_begin <= memory_consumption, no write outside the block via red zones)."""
import os, re, subprocess, sys, tempfile
HERE = os.path.dirname(os.path.abspath(__file__))
sys.path.insert(0, HERE)
import layout, vf

CT = {1: 'std::uint8_t', 2: 'std::uint16_t', 4: 'std::uint32_t', 8: 'std::uint64_t'}


def _prog(L, fs, vc, k):
    P = L.params
    ps = ', '.join(p.cxx().replace('vf::B<', 'RB<') for p in P)
    n = len(P)
    # arguments of emplace_back per element
    decl = []; args = []
    j = 0
    for i, p in enumerate(P):
        vt = p.value_type().replace('vf::B<', 'RB<')
        if p.kind == 'c':
            val = vc[sum(1 for q in P[:i + 1] if q.kind == 'v')] if (i + 1 < n and P[i + 1].kind == 'v') else 7
            args.append('%s(%d)' % (vt, val))
        elif p.kind == 'p':
            args.append('%s{}' % vt)
        elif p.kind == 'f':
            kf = sum(1 for q in P[:i] if q.kind == 'f')
            decl.append('std::vector<%s> src%d(%d);' % (vt, i, max(1, fs[kf])))
            args.append('src%d.data()' % i)
        else:
            kv = sum(1 for q in P[:i] if q.kind == 'v')
            decl.append('std::vector<%s> src%d(%d);' % (vt, i, max(1, vc[kv])))
            args.append('cntgs::Span<const %s>(src%d.data(), src%d.data() + %d)' % (vt, i, i, vc[kv]))
    prints = []
    for i, p in enumerate(P):
        if p.kind in 'pc':
            prints.append('std::printf("F %%zu %d %%p %%p\\n", e, (void*)&cntgs::get<%d>(r), (void*)(reinterpret_cast<const unsigned char*>(&cntgs::get<%d>(r)) + %d));' % (i, i, i, p.size))
        else:
            prints.append('std::printf("F %%zu %d %%p %%p\\n", e, (void*)cntgs::get<%d>(r).data(), (void*)(cntgs::get<%d>(r).data() + cntgs::get<%d>(r).size()));' % (i, i, i, i))
    ctor_fs = '{%s}' % ', '.join(str(x) for x in fs)
    vb = sum(P[i].size * vc[sum(1 for q in P[:i] if q.kind == 'v')] for i in range(n) if P[i].kind == 'v')
    if L.is_varying() and L.nfixed: ctor = 'V v{2, %d, %s, alloc};' % (2 * vb, ctor_fs)
    elif L.is_varying(): ctor = 'V v{2, %d, alloc};' % (2 * vb)
    elif L.nfixed: ctor = 'V v{2, %s, alloc};' % ctor_fs
    else: ctor = 'V v{2};   /* the allocator-taking constructor of all-plain lists is ill-formed at this commit */'
    return '''#include <cntgs/contiguous.hpp>
#include <cstdio>
#include <cstdlib>
#include <cstring>
#include <vector>
template <unsigned N> struct RB { unsigned char b[N]; };
static unsigned char* g_base; static std::size_t g_bytes; static const std::size_t SA = %(sa)d, K = %(k)d, RZ = 256;
template <class T> struct A { using value_type = T; A() = default; template <class U> A(const A<U>&) {}
  T* allocate(std::size_t n) { std::size_t bytes = n * sizeof(T); unsigned char* raw = (unsigned char*)std::aligned_alloc(4096, ((bytes + 2 * RZ + 8192) / 4096 + 1) * 4096);
    unsigned char* p = raw + 4096 + SA * K; std::memset(raw, 0xA5, 4096 + SA * K); std::memset(p + bytes, 0xA5, RZ);
    if (sizeof(T) == SA && alignof(T) == SA) { g_base = p; g_bytes = bytes; } return (T*)p; }
  void deallocate(T*, std::size_t) {}
  friend bool operator==(const A&, const A&) { return true; } friend bool operator!=(const A&, const A&) { return false; } };
int main() {
  using V = cntgs::BasicContiguousVector<cntgs::Options<cntgs::Allocator<A<char>>>, %(ps)s>;
  A<char> alloc; %(ctor)s
  %(decl)s
  for (int e = 0; e < 2; ++e) v.emplace_back(%(args)s);
  std::printf("B %%p %%zu %%zu %%ld\\n", (void*)v.data_begin(), v.memory_consumption(), g_bytes, (long)(v.data_end() - v.data_begin()));
  for (std::size_t e = 0; e < 2; ++e) { auto r = v[e]; std::printf("E %%zu %%p %%p\\n", e, (void*)r.data_begin(), (void*)r.data_end()); %(prints)s }
  int rz = 0; for (std::size_t i = 0; i < RZ; ++i) rz |= (g_base[g_bytes + i] != 0xA5); for (std::size_t i = 1; i <= 64; ++i) rz |= (g_base[-(long)i] != 0xA5);
  std::printf("R %%d\\n", rz);
  return 0;
}
''' % dict(sa=L.sa, k=k, ps=ps, ctor=ctor, decl=' '.join(decl), args=', '.join(args), prints=' '.join(prints))


def _au(x, a): return (x + a - 1) // a * a


def run(u, r, ob, trace):
    if not u['id'].startswith('lay.'):
        return None
    spec = u['config'].split(': ', 1)[1]
    L = layout.Layout(spec)
    cex = vf.cex_inputs(trace)
    def num(name, default=1):
        v = cex.get(name) or cex.get('g_' + name)
        m = re.match(r'(\d+)', v or '')
        return int(m.group(1)) if m else default
    fs = [min(num('fs%d' % k), 64) for k in range(L.nfixed)]
    vc = [min(num('vc%d' % k), 64) for k in range(L.nvar)]
    k = min(num('k', 1), 9)
    src = _prog(L, fs, vc, k)
    with tempfile.TemporaryDirectory(dir=os.path.join(vf.BUILD)) as td:
        open(os.path.join(td, 'replay.cpp'), 'w').write(src)
        c = subprocess.run(['g++', '-std=c++17', '-DNDEBUG', '-I' + os.path.join(vf.REPO, 'src'), 'replay.cpp', '-o', 'replay'], cwd=td, capture_output=True, text=True)
        if c.returncode != 0:
            return {'reproduced': False, 'note': 'replay program does not compile: ' + c.stderr[-400:], 'inputs': {'fs': fs, 'vc': vc, 'k': k}}
        p = subprocess.run(['./replay'], cwd=td, capture_output=True, text=True, timeout=60)
    problems = []
    fields = {}; elems = {}; base = None
    for ln in p.stdout.split('\n'):
        t = ln.split()
        if not t: continue
        if t[0] == 'B': base, cons, blk, used = int(t[1], 16), int(t[2]), int(t[3]), int(t[4])
        if t[0] == 'E': elems[int(t[1])] = (int(t[2], 16), int(t[3], 16))
        if t[0] == 'F': fields[(int(t[1]), int(t[2]))] = (int(t[3], 16), int(t[4], 16))
        if t[0] == 'R' and t[1] != '0': problems.append('bytes outside the allocator block were written (red zone damaged)')
    if p.returncode != 0 or base is None:
        problems.append('replay program crashed (exit %s): %s' % (p.returncode, p.stderr[-300:]))
    else:
        if used > cons: problems.append('data_end - data_begin = %d exceeds memory_consumption() = %d' % (used, cons))
        prev_end = base
        for e in range(2):
            start = _au(prev_end, L.sa) if e else base
            if elems.get(e, (None,))[0] != start: problems.append('element %d starts at +%d, lowest storage-aligned address is +%d' % (e, elems[e][0] - base, start - base))
            pos = start
            for i, prm in enumerate(L.params):
                cnt = 1 if prm.kind in 'pc' else (fs[sum(1 for q in L.params[:i] if q.kind == 'f')] if prm.kind == 'f' else vc[sum(1 for q in L.params[:i] if q.kind == 'v')])
                b = _au(pos, prm.align); e_ = b + prm.size * cnt
                got = fields.get((e, i))
                if got is None: continue
                if got[0] % prm.align: problems.append('field %d of element %d at address %% %d == %d' % (i, e, prm.align, got[0] % prm.align))
                if (cnt or prm.kind in 'pc') and got[0] != b: problems.append('field %d of element %d begins at +%d, tight in-order layout puts it at +%d' % (i, e, got[0] - start, b - start))
                if got[1] - got[0] != prm.size * cnt: problems.append('field %d of element %d holds %d bytes, expected %d' % (i, e, got[1] - got[0], prm.size * cnt))
                pos = e_
            prev_end = pos
    return {'reproduced': bool(problems), 'recipe': 'layout', 'inputs': {'parameter_list': spec, 'fixed_sizes': fs, 'varying_counts': vc, 'base_offset_multiplier': k},
            'native_output': p.stdout[-1500:], 'mismatches': problems}


# ---------------------------------------------------------------- recipe `history` (units vec.*)
def _hist_prog(L, F, op, prm):
    P = L.params; n = len(P)
    ps = ', '.join(p.cxx().replace('vf::B<', 'RB<') for p in P)
    POCCA, POCMA, POCS, AE = F & 1, F & 2, F & 4, F & 8
    # per ordinal o: argument construction and check of stored content
    mk = []; args = []; chk = []
    for i, p in enumerate(P):
        vt = p.value_type().replace('vf::B<', 'RB<')
        if p.kind == 'c':
            if i + 1 < n and P[i + 1].kind == 'v':
                mk.append('%s a%d = (%s)CNT(o, %d);' % (vt, i, vt, i + 1)); chk.append('ok &= (std::uint64_t)cntgs::get<%d>(r) == CNT(o, %d);' % (i, i + 1))
            else:
                mk.append('%s a%d = (%s)(o * 7 + %d);' % (vt, i, vt, i)); chk.append('ok &= cntgs::get<%d>(r) == (%s)(o * 7 + %d);' % (i, vt, i))
            args.append('a%d' % i)
        elif p.kind == 'p':
            mk.append('%s a%d; std::memset(&a%d, (int)PAT(o, %d, 0), sizeof a%d);' % (vt, i, i, i, i)); args.append('a%d' % i)
            chk.append('ok &= *reinterpret_cast<const unsigned char*>(&cntgs::get<%d>(r)) == PAT(o, %d, 0);' % (i, i))
        else:
            cnt = ('FS[%d]' % sum(1 for q in P[:i] if q.kind == 'f')) if p.kind == 'f' else 'CNT(o, %d)' % i
            mk.append('std::vector<%s> s%d(%s + 1); for (std::size_t j = 0; j < %s; ++j) std::memset(&s%d[j], (int)PAT(o, %d, j), sizeof(%s));' % (vt, i, cnt, cnt, i, i, vt))
            args.append(('s%d.data()' % i) if p.kind == 'f' else 'cntgs::Span<const %s>(s%d.data(), s%d.data() + %s)' % (vt, i, i, cnt))
            chk.append('ok &= cntgs::get<%d>(r).size() == %s; for (std::size_t j = 0; j < %s && j < cntgs::get<%d>(r).size(); ++j) ok &= *reinterpret_cast<const unsigned char*>(&cntgs::get<%d>(r)[j]) == PAT(o, %d, j);' % (i, cnt, cnt, i, i, i))
    fsinit = ', '.join(str(x) for x in prm['fs'])
    if L.is_varying() and L.nfixed: ctor = lambda nm, cap, al: 'V %s{%s, BUDGET(%s), {%s}, %s};' % (nm, cap, cap, fsinit, al)
    elif L.is_varying(): ctor = lambda nm, cap, al: 'V %s{%s, BUDGET(%s), %s};' % (nm, cap, cap, al)
    elif L.nfixed: ctor = lambda nm, cap, al: 'V %s{%s, {%s}, %s};' % (nm, cap, fsinit, al)
    else: ctor = lambda nm, cap, al: 'V %s{%s};' % (nm, cap)
    maxpay = sum(p.size * 3 for p in P if p.kind == 'v')
    body = {
        'pop_back': 'v.pop_back(); m.pop_back(); NOALLOC; SAMEBLOCK;',
        'clear': 'v.clear(); m.clear(); NOALLOC; SAMEBLOCK; if (v.data_begin() != v.data_end()) fail("data_begin() != data_end() after clear()");',
        'erase': 'auto it = v.erase(v.begin() + POS); m.erase(m.begin() + POS); if (it.index() != POS) fail("erase returned the wrong iterator"); NOALLOC; SAMEBLOCK;',
        'erase_range': 'auto it = v.erase(v.begin() + FIRST, v.begin() + LAST); m.erase(m.begin() + FIRST, m.begin() + LAST); if (it.index() != FIRST) fail("erase returned the wrong iterator"); NOALLOC; SAMEBLOCK;',
        'emplace_back': 'if (v.size() < v.capacity()) { emplace(v, 90); m.push_back(90); NOALLOC; SAMEBLOCK; }',
        'reserve': 'v.reserve(NEWN, BUDGET(NEWN)); if (NEWN <= CAP) { NOALLOC; SAMEBLOCK; if (v.capacity() != CAP) fail("reserve within capacity changed capacity()"); } else { if (v.capacity() != NEWN) fail("capacity() != n after reserve"); while (v.size() < v.capacity()) { emplace(v, 50 + (int)v.size()); m.push_back(50 + (int)m.size()); } }',
        'swap': 'swap(v, w); std::swap(m, mw); std::swap(capv, capw); NOALLOC;',
        'copy_ctor': 'V c{v}; if (c.size() != v.size()) fail("copy has a different size()"); if (c.capacity() != v.capacity()) fail("copy has a different capacity()"); if (c.size() && c.data_begin() == v.data_begin()) fail("copy shares storage"); check(c, m, "copy"); if (c.memory_consumption() > v.memory_consumption()) fail("copy consumes more than the source");',
        'copy_assign': 'std::size_t before = v.memory_consumption(); v = w; m = mw; capv = capw; check(w, mw, "source after copy assignment"); if (v.memory_consumption() > std::max(before, w.memory_consumption())) fail("target consumes more than it did and more than the source");',
        'move_assign': 'std::size_t before = v.memory_consumption(), src = w.memory_consumption(); v = std::move(w); m = mw; capv = capw; if (v.memory_consumption() > std::max(before, src)) fail("target consumes more than it did and more than the source did"); while (v.size() < v.capacity()) { emplace(v, 60 + (int)v.size()); m.push_back(60 + (int)m.size()); }',
        'move_ctor': 'V c{std::move(v)}; NOALLOC; check(c, m, "move-constructed vector"); if (c.capacity() != CAP) fail("capacity not transferred"); return g_bad; /* the moved-from vector is only required to be destructible/assignable */',
    }.get(op)
    if body is None:
        return None
    return '''#include <cntgs/contiguous.hpp>
#include <cstdio>
#include <cstdlib>
#include <cstring>
#include <vector>
#include <algorithm>
template <unsigned N> struct RB { unsigned char b[N]; };
static long g_allocs = 0; static int g_bad = 0; static const std::size_t RZ = 128;
struct Blk { unsigned char* p; std::size_t n; }; static std::vector<Blk> g_blks;
static void fail(const char* what) { std::printf("MISMATCH %%s\\n", what); g_bad = 1; }
template <class T> struct A { using value_type = T; int id; A(int i = 0) : id(i) {} template <class U> A(const A<U>& o) : id(o.id) {}
  using propagate_on_container_copy_assignment = std::bool_constant<%(pocca)d>; using propagate_on_container_move_assignment = std::bool_constant<%(pocma)d>;
  using propagate_on_container_swap = std::bool_constant<%(pocs)d>; using is_always_equal = std::bool_constant<%(ae)d>;
  T* allocate(std::size_t n) { ++g_allocs; std::size_t bytes = n * sizeof(T); unsigned char* raw = (unsigned char*)std::aligned_alloc(4096, ((bytes + 2 * RZ + 8192) / 4096 + 1) * 4096);
    unsigned char* p = raw + 4096 + alignof(T); std::memset(raw, 0xA5, 4096 + alignof(T)); std::memset(p, 0x5A, bytes); std::memset(p + bytes, 0xA5, RZ); g_blks.push_back({p, bytes}); return (T*)p; }
  void deallocate(T* p, std::size_t) { (void)p; }
  friend bool operator==(const A& a, const A& b) { return %(ae)d || a.id == b.id; } friend bool operator!=(const A& a, const A& b) { return !(a == b); } };
using V = cntgs::BasicContiguousVector<cntgs::Options<cntgs::Allocator<A<char>>>, %(ps)s>;
static const std::size_t FS[] = {%(fsinit)s 0};
static std::size_t CNT(int o, int field) { return (std::size_t)((o * 3 + field * 5 + 1) %% 4); }
static unsigned char PAT(int o, int field, std::size_t j) { return (unsigned char)(1 + (o * 31 + field * 7 + j * 3) %% 250); }
static std::size_t BUDGET(std::size_t cap) { return cap * %(maxpay)d; }
static void emplace(V& v, int o) { %(mk)s v.emplace_back(%(args)s); }
static void check(const V& v, const std::vector<int>& m, const char* who) {
  if (v.size() != m.size()) { std::printf("MISMATCH %%s: size() == %%zu, sequence model has %%zu\\n", who, v.size(), m.size()); g_bad = 1; return; }
  if (v.empty() != m.empty()) fail("empty() disagrees with size()");
  for (std::size_t i = 0; i < m.size(); ++i) { int o = m[i]; auto r = v[i]; bool ok = true; %(chk)s if (!ok) { std::printf("MISMATCH %%s: element %%zu does not hold the values of the element emplaced as #%%d\\n", who, i, o); g_bad = 1; } }
  if ((std::size_t)(v.data_end() - v.data_begin()) > v.memory_consumption()) fail("data_end() - data_begin() > memory_consumption()");
}
int main() {
  const std::size_t CAP = %(cap)d, SIZE = %(size)d, POS = %(pos)d, FIRST = %(first)d, LAST = %(last)d, NEWN = %(newn)d, CAPW = %(capo)d, SIZEW = %(sizeo)d;
  (void)POS; (void)FIRST; (void)LAST; (void)NEWN; (void)CAPW; (void)SIZEW;
  %(ctor_v)s std::vector<int> m; for (std::size_t i = 0; i < SIZE; ++i) { emplace(v, (int)i); m.push_back((int)i); }
  %(ctor_w)s std::vector<int> mw; for (std::size_t i = 0; i < SIZEW; ++i) { emplace(w, 20 + (int)i); mw.push_back(20 + (int)i); }
  std::size_t capv = CAP, capw = CAPW; (void)capw;
  const long allocs0 = g_allocs; const std::byte* base0 = v.data_begin(); (void)base0;
#define NOALLOC do { if (g_allocs != allocs0) fail("the operation requested memory from the allocator"); } while (0)
#define SAMEBLOCK do { if (v.data_begin() != base0) fail("data_begin() changed"); if (v.capacity() != capv) fail("capacity() changed"); } while (0)
  %(body)s
  check(v, m, "vector after the operation");
  for (auto& b : g_blks) { for (std::size_t i = 0; i < RZ; ++i) if (b.p[b.n + i] != 0xA5 || (i < 8 && b.p[-(long)i - 1] != 0xA5)) { fail("bytes outside an allocator block were written"); break; } }
  return g_bad;
}
''' % dict(ps=ps, pocca=1 if POCCA else 0, pocma=1 if POCMA else 0, pocs=1 if POCS else 0, ae=1 if AE else 0, fsinit=(fsinit + ',') if fsinit else '', maxpay=max(1, maxpay),
           mk=' '.join(mk), args=', '.join(args), chk=' '.join(chk), cap=prm['cap'], size=prm['size'], pos=prm['pos'], first=prm['first'], last=prm['last'], newn=prm['newn'],
           capo=prm['capo'], sizeo=prm['sizeo'], ctor_v=ctor('v', 'CAP', 'A<char>(1)'), ctor_w=ctor('w', 'CAPW', 'A<char>(2)'), body=body)


def run_history(u, r, ob, trace):
    m = re.match(r'vector: (.*), allocator traits F=(\d+)', u.get('config', ''))
    if not m:
        return None
    spec, F = m.group(1), int(m.group(2))
    L = layout.Layout(spec)
    if any(p.elem in 'tmx' for p in L.params):
        return None
    op = u['id'].split('.')[3] if len(u['id'].split('.')) > 3 else ''
    cex = vf.cex_inputs(trace)
    def num(name, default):
        mm = re.match(r'(\d+)', cex.get(name, '') or '')
        return int(mm.group(1)) if mm else default
    capd = dict(x.split('=') for x in u.get('cdefs', []) if '=' in x)
    cap = int(capd.get('CAPK', 3)); capo = int(capd.get('CAPK_O', cap))
    size = min(num('g_pre.tsize', num('g_pre.count', cap)), cap)
    prm = dict(cap=cap, capo=capo, size=size, sizeo=min(num('g_pre_o.tsize', num('g_pre_o.count', capo)), capo), pos=min(num('g_pos', 0), max(size - 1, 0)),
               first=0, last=0, newn=min(num('g_new_n', cap + 2), 12), fs=[min(max(num('g_fs%d' % k, 2), 0), 6) for k in range(L.nfixed)])
    prm['first'] = min(num('g_first', 0), size); prm['last'] = min(max(num('g_last', size), prm['first']), size)
    if op == 'erase' and size == 0:
        prm['size'] = size = 1
    if op == 'pop_back' and size == 0:
        prm['size'] = 1
    src = _hist_prog(L, F, op, prm)
    if src is None:
        return None
    with tempfile.TemporaryDirectory(dir=os.path.join(vf.BUILD)) as td:
        open(os.path.join(td, 'replay.cpp'), 'w').write(src)
        c = subprocess.run(['g++', '-std=c++17', '-DNDEBUG', '-I' + os.path.join(vf.REPO, 'src'), 'replay.cpp', '-o', 'replay'], cwd=td, capture_output=True, text=True)
        if c.returncode != 0:
            return {'reproduced': False, 'recipe': 'history', 'note': 'replay program does not compile: ' + c.stderr[-500:], 'inputs': prm}
        try:
            p = subprocess.run(['./replay'], cwd=td, capture_output=True, text=True, timeout=60)
        except subprocess.TimeoutExpired:
            return {'reproduced': True, 'recipe': 'history', 'inputs': prm, 'mismatches': ['replay program did not terminate']}
    mism = [l for l in p.stdout.split('\n') if l.startswith('MISMATCH')]
    if p.returncode not in (0, 1):
        mism.append('replay program crashed (exit %s)' % p.returncode)
    return {'reproduced': bool(mism), 'recipe': 'history', 'inputs': dict(prm, parameter_list=spec, allocator_traits=F, operation=op), 'mismatches': mism[:8]}


_layout_run = run


def run(u, r, ob, trace):
    if u['id'].startswith('lay.'):
        return _layout_run(u, r, ob, trace)
    if u['id'].startswith('vec.'):
        return run_history(u, r, ob, trace)
    return None


# ---------------------------------------------------------------- recipe `convert` (units conv.<T>_from_<U>.<form>)
def run_convert(u, r, ob, trace):
    import conv
    m = re.match(r'conv\.(\w+)_from_(\w+)\.(\w+)$', u['id'])
    if not m or m.group(1) not in conv.TYPES or m.group(2) not in conv.TYPES:
        return None
    T, U, form = m.groups()
    t, ut = conv.TYPES[T][0], conv.TYPES[U][0]
    cex = vf.cex_inputs(trace)
    raw = cex.get('g_srck', '2')
    mm = re.match(r'(-?[0-9.eE+-]+)', raw)
    val = mm.group(1) if mm else '2'
    if U == 'bool': val = '1'
    src = {
        'ptr': 'const U* p = s.data(); v.emplace_back(p);', 'ptr_aliased': 'const U* p = s.data(); v.emplace_back(p);',
        'array_lvalue': 'v.emplace_back(s);', 'array_rvalue': 'auto s2 = s; v.emplace_back(std::move(s2));',
        'c_array': 'U c[4] = {s[0], s[1], s[2], s[3]}; v.emplace_back(c);', 'generator': 'U wide[8] = {s[0], U{}, s[1], U{}, s[2], U{}, s[3], U{}}; v.emplace_back(vf::StrideIt<U>{wide});',
    }[form]
    prog = '''#include "support.hpp"
#include <cntgs/contiguous.hpp>
#include <array>
#include <cstdio>
#include <cstring>
using T = %(t)s; using U = %(ut)s;
int main() {
  cntgs::ContiguousVector<cntgs::FixedSize<T>> v{1, {4}};
  std::array<U, 4> s{}; for (auto& x : s) x = static_cast<U>(%(val)s);
  %(src)s
  int bad = 0;
  for (int k = 0; k < 4; ++k) { T want = static_cast<T>(s[k]); if (std::memcmp(&cntgs::get<0>(v[0])[k], &want, sizeof(T)) != 0) { std::printf("MISMATCH item %%d: stored object differs from T(source item)\\n", k); bad = 1; } }
  return bad;
}
''' % dict(t=t, ut=ut, val=val, src=src)
    with tempfile.TemporaryDirectory(dir=os.path.join(vf.BUILD)) as td:
        open(os.path.join(td, 'replay.cpp'), 'w').write(prog)
        c = subprocess.run(['g++', '-std=c++17', '-DNDEBUG', '-I' + os.path.join(vf.REPO, 'src'), '-I' + os.path.join(vf.VERIF, 'inst'), 'replay.cpp', '-o', 'replay'], cwd=td, capture_output=True, text=True)
        if c.returncode != 0:
            return {'reproduced': False, 'recipe': 'convert', 'note': 'replay program does not link/compile (hooks are not defined natively): ' + c.stderr[-300:]}
        p = subprocess.run(['./replay'], cwd=td, capture_output=True, text=True, timeout=60)
    mism = [l for l in p.stdout.split('\n') if l.startswith('MISMATCH')]
    return {'reproduced': bool(mism), 'recipe': 'convert', 'inputs': {'stored_type': t, 'source_type': ut, 'source_form': form, 'source_value': val}, 'mismatches': mism}


_prev_run = run


def run(u, r, ob, trace):
    if u['id'].startswith('conv.') and not u['id'].startswith('conv.tracked'):
        return run_convert(u, r, ob, trace)
    return _prev_run(u, r, ob, trace)


# ---------------------------------------------------------------- recipe `compare` (units vec.<list of integers/floats>.F<f>.{equal,not_equal,less,op_*,...})
def _cmp_prog(L, group):
    """native differential test of the vector-level comparison operators against an oracle written over the logical content only:
    pairs of vectors (0..2 elements, fixed sizes 0..2, values 0..2; equal pairs, prefixes and unrelated pairs) built in blocks that
    were filled with different junk bytes first"""
    P = L.params
    types = ', '.join(p.cxx() for p in P)
    nf = L.nfixed
    if nf and L.nvar: ctor = 'V v(3, 64, {%s});' % ', '.join('fs[%d]' % k for k in range(nf))
    elif nf: ctor = 'V v(3, {%s});' % ', '.join('fs[%d]' % k for k in range(nf))
    elif L.nvar: ctor = 'V v(3, 64);'
    else: ctor = 'V v(3);'
    args = []
    for i, p in enumerate(P):
        if p.kind in 'pc': args.append('(%s)e[%d][0]' % (p.value_type(), i))
        else: args.append('tov<%s>(e[%d])' % (p.value_type(), i))
    gen = []   # random element: field i gets its values
    fk = 0
    for i, p in enumerate(P):
        if p.kind == 'p': gen.append('e[%d] = {(long long)rnd(3)};' % i)
        elif p.kind == 'c' and i + 1 < len(P) and P[i + 1].kind == 'v': gen.append('e[%d] = {(long long)rnd(3)};' % i)
        elif p.kind == 'c': gen.append('e[%d] = {(long long)rnd(3)};' % i)
        elif p.kind == 'f': gen.append('e[%d].clear(); for (std::size_t j = 0; j < fs[%d]; ++j) e[%d].push_back(rnd(3));' % (i, fk, i)); fk += 1
        else: gen.append('e[%d].clear(); for (long long j = 0; j < e[%d][0]; ++j) e[%d].push_back(rnd(3));' % (i, i - 1, i))
    bytes_only = all(p.kind in 'pc' and p.elem == 'u' and p.size == 1 for p in P)
    checks_eq = '''
        bool eq = oracle_eq(qa, qb);
        if ((a == b) != eq) { report("operator==", qa, fa, qb, fb, a == b, eq); }
        if ((a != b) != !eq) { report("operator!=", qa, fa, qb, fb, a != b, !eq); }
        if (!(a == a)) { report("== reflexive", qa, fa, qa, fa, false, true); }
        if ((a == b) != (b == a)) { report("== symmetric", qa, fa, qb, fb, a == b, b == a); }'''
    checks_lt = '''
        if (a < a) { report("< irreflexive", qa, fa, qa, fa, true, false); }
        if ((a < b) && (b < a)) { report("< asymmetric", qa, fa, qb, fb, true, false); }
        if ((a < b) && (a == b)) { report("a < b implies a != b", qa, fa, qb, fb, true, false); }
        if ((a > b) != (b < a)) { report("a > b equals b < a", qa, fa, qb, fb, a > b, b < a); }
        if ((a <= b) != !(b < a)) { report("a <= b equals !(b < a)", qa, fa, qb, fb, a <= b, !(b < a)); }
        if ((a >= b) != !(a < b)) { report("a >= b equals !(a < b)", qa, fa, qb, fb, a >= b, !(a < b)); }''' + ('''
        if ((a < b) != oracle_lt(qa, qb)) { report("operator< (lexicographical)", qa, fa, qb, fb, a < b, oracle_lt(qa, qb)); }''' if bytes_only else '')
    return r'''// generated by tools/replay.py (recipe compare) for "%(spec)s"
#include <cntgs/contiguous.hpp>
#include <array>
#include <cstdint>
#include <cstdio>
#include <cstring>
#include <vector>
using Elem = std::vector<std::vector<long long>>;   // per field: its values (a plain field has one)
using Seq = std::vector<Elem>;
using FS = std::array<std::size_t, %(nf1)d>;
using V = cntgs::ContiguousVector<%(types)s>;
static unsigned long long st = 88172645463325252ull;
static unsigned rnd(unsigned n) { st ^= st << 13; st ^= st >> 7; st ^= st << 17; return (unsigned)((st >> 11) %% n); }
template <class T> static std::vector<T> tov(const std::vector<long long>& x) { std::vector<T> r; for (auto v : x) r.push_back((T)v); return r; }
static int bad = 0;
static void show(const Seq& q, const FS& fs) { std::printf("{"); for (auto& e : q) { std::printf("("); for (auto& f : e) { std::printf("["); for (auto v : f) std::printf("%%lld ", v); std::printf("]"); } std::printf(")"); } std::printf("} fixed sizes"); for (auto f : fs) std::printf(" %%zu", f); }
static void report(const char* what, const Seq& a, const FS& fa, const Seq& b, const FS& fb, bool got, bool want)
{ if (bad++ < 4) { std::printf("MISMATCH %%s: library %%d, field-wise oracle %%d; a = ", what, got, want); show(a, fa); std::printf("; b = "); show(b, fb); std::printf("\n"); } }
static bool oracle_eq(const Seq& a, const Seq& b) { return a == b; }   // same number of elements, same field sizes, same values
static bool oracle_lt(const Seq& a, const Seq& b) { return a < b; }    // lexicographical over elements, fields, values
static Elem random_elem(const FS& fs) { Elem e(%(n)d); (void)fs; %(gen)s return e; }
static V make(const Seq& q, const FS& fs, int junk)
{
    (void)fs; %(ctor)s
    std::memset(v.data(), junk, v.memory_consumption());
    for (auto& e : q) v.emplace_back(%(args)s);
    return v;
}
int main()
{
    for (int it = 0; it < 6000 && bad < 4; ++it)
    {
        FS fa{}, fb{};
        for (auto& f : fa) f = rnd(3);
        fb = fa; if (rnd(4) == 0) for (auto& f : fb) f = rnd(3);
        Seq qa, qb;
        unsigned na = rnd(3), nb = rnd(3);
        for (unsigned i = 0; i < na; ++i) qa.push_back(random_elem(fa));
        unsigned mode = rnd(3);
        if (mode == 0 && fa == fb) qb = qa;                                       // equal content
        else if (mode == 1 && fa == fb) { qb = qa; if (!qb.empty()) qb.pop_back(); }  // strict prefix
        else for (unsigned i = 0; i < nb; ++i) qb.push_back(random_elem(fb));
        if (rnd(2)) { std::swap(qa, qb); std::swap(fa, fb); }
        V a = make(qa, fa, 0xAA), b = make(qb, fb, 0x55);
%(checks)s
    }
    return bad ? 1 : 0;
}
''' % dict(spec=L.spec, nf1=nf, types=types, n=len(P), gen=' '.join(gen), ctor=ctor, args=', '.join(args), checks=checks_eq if group == 'eq' else checks_lt)


def run_vcompare(u, r, ob, trace):
    m = re.match(r'vector: (.*), allocator traits F=(\d+)', u.get('config', ''))
    if not m:
        return None
    L = layout.Layout(m.group(1))
    op = '.'.join(u['id'].split('.')[3:-1])
    group = 'eq' if op in ('equal', 'not_equal', 'equal.reflexive', 'equal.symmetric') else 'lt'
    src = _cmp_prog(L, group)
    with tempfile.TemporaryDirectory(dir=os.path.join(vf.BUILD)) as td:
        open(os.path.join(td, 'replay.cpp'), 'w').write(src)
        c = subprocess.run(['g++', '-std=c++17', '-DNDEBUG', '-O1', '-I' + os.path.join(vf.REPO, 'src'), 'replay.cpp', '-o', 'replay'], cwd=td, capture_output=True, text=True)
        if c.returncode != 0:
            return {'reproduced': False, 'recipe': 'compare', 'note': 'replay program does not compile: ' + c.stderr[-500:]}
        try:
            p = subprocess.run(['./replay'], cwd=td, capture_output=True, text=True, timeout=120)
        except subprocess.TimeoutExpired:
            return {'reproduced': False, 'recipe': 'compare', 'note': 'replay program did not terminate'}
    mism = [l for l in p.stdout.split('\n') if l.startswith('MISMATCH')]
    if p.returncode not in (0, 1):
        mism.append('replay program crashed (exit %s)' % p.returncode)
    return {'reproduced': bool(mism), 'recipe': 'compare', 'inputs': {'parameter_list': L.spec, 'operator_group': group, 'search': '6000 pseudo-random pairs of vectors with <= 2 elements, fixed sizes and values in 0..2, blocks pre-filled with 0xAA resp. 0x55'}, 'mismatches': mism[:4]}


_prev_run2 = run


def run(u, r, ob, trace):
    if u['id'].startswith('vec.') and re.search(r'\.(equal|not_equal|less|op_gt|op_le|op_ge)(\.|$)', u['id']):
        return run_vcompare(u, r, ob, trace)
    return _prev_run2(u, r, ob, trace)
