#!/usr/bin/env python3
"""Native replay of counterexamples against the real code through the public API.
Implemented recipe: `layout` (units lay.*): a C++ program generated for the parameter list builds a
ContiguousVector with the counterexample's fixed sizes, emplaces two elements with the counterexample's varying
counts on a block whose base is aligned to exactly the storage alignment plus SA*k, and prints every field address;
this script compares them with the greedy oracle (order, alignment, tight packing, element start) and checks the
N-element/B-byte budget (data_end - data_begin <= memory_consumption, no write outside the block via red zones)."""
import os, re, subprocess, sys, tempfile
HERE = os.path.dirname(os.path.abspath(__file__))
sys.path.insert(0, HERE)
import layout, vf

CT = {1: 'std::uint8_t', 2: 'std::uint16_t', 4: 'std::uint32_t', 8: 'std::uint64_t'}


def _prog(L, fs, vc, k):
    P = L.params
    ps = ', '.join(p.cxx().replace('vf::B<', 'RB<') for p in P)
    n = len(P)
    # arguments of emplace_back per element
    decl = []; args = []
    j = 0
    for i, p in enumerate(P):
        vt = p.value_type().replace('vf::B<', 'RB<')
        if p.kind == 'c':
            val = vc[sum(1 for q in P[:i + 1] if q.kind == 'v')] if (i + 1 < n and P[i + 1].kind == 'v') else 7
            args.append('%s(%d)' % (vt, val))
        elif p.kind == 'p':
            args.append('%s{}' % vt)
        elif p.kind == 'f':
            kf = sum(1 for q in P[:i] if q.kind == 'f')
            decl.append('std::vector<%s> src%d(%d);' % (vt, i, max(1, fs[kf])))
            args.append('src%d.data()' % i)
        else:
            kv = sum(1 for q in P[:i] if q.kind == 'v')
            decl.append('std::vector<%s> src%d(%d);' % (vt, i, max(1, vc[kv])))
            args.append('cntgs::Span<const %s>(src%d.data(), src%d.data() + %d)' % (vt, i, i, vc[kv]))
    prints = []
    for i, p in enumerate(P):
        if p.kind in 'pc':
            prints.append('std::printf("F %%zu %d %%p %%p\\n", e, (void*)&cntgs::get<%d>(r), (void*)(reinterpret_cast<const unsigned char*>(&cntgs::get<%d>(r)) + %d));' % (i, i, i, p.size))
        else:
            prints.append('std::printf("F %%zu %d %%p %%p\\n", e, (void*)cntgs::get<%d>(r).data(), (void*)(cntgs::get<%d>(r).data() + cntgs::get<%d>(r).size()));' % (i, i, i, i))
    ctor_fs = '{%s}' % ', '.join(str(x) for x in fs)
    vb = sum(P[i].size * vc[sum(1 for q in P[:i] if q.kind == 'v')] for i in range(n) if P[i].kind == 'v')
    if L.is_varying() and L.nfixed: ctor = 'V v{2, %d, %s, alloc};' % (2 * vb, ctor_fs)
    elif L.is_varying(): ctor = 'V v{2, %d, alloc};' % (2 * vb)
    elif L.nfixed: ctor = 'V v{2, %s, alloc};' % ctor_fs
    else: ctor = 'V v{2};   /* the allocator-taking constructor of all-plain lists is ill-formed at this commit */'
    return '''#include <cntgs/contiguous.hpp>
#include <cstdio>
#include <cstdlib>
#include <cstring>
#include <vector>
template <unsigned N> struct RB { unsigned char b[N]; };
static unsigned char* g_base; static std::size_t g_bytes; static const std::size_t SA = %(sa)d, K = %(k)d, RZ = 256;
template <class T> struct A { using value_type = T; A() = default; template <class U> A(const A<U>&) {}
  T* allocate(std::size_t n) { std::size_t bytes = n * sizeof(T); unsigned char* raw = (unsigned char*)std::aligned_alloc(4096, ((bytes + 2 * RZ + 8192) / 4096 + 1) * 4096);
    unsigned char* p = raw + 4096 + SA * K; std::memset(raw, 0xA5, 4096 + SA * K); std::memset(p + bytes, 0xA5, RZ);
    if (sizeof(T) == SA && alignof(T) == SA) { g_base = p; g_bytes = bytes; } return (T*)p; }
  void deallocate(T*, std::size_t) {}
  friend bool operator==(const A&, const A&) { return true; } friend bool operator!=(const A&, const A&) { return false; } };
int main() {
  using V = cntgs::BasicContiguousVector<cntgs::Options<cntgs::Allocator<A<char>>>, %(ps)s>;
  A<char> alloc; %(ctor)s
  %(decl)s
  for (int e = 0; e < 2; ++e) v.emplace_back(%(args)s);
  std::printf("B %%p %%zu %%zu %%ld\\n", (void*)v.data_begin(), v.memory_consumption(), g_bytes, (long)(v.data_end() - v.data_begin()));
  for (std::size_t e = 0; e < 2; ++e) { auto r = v[e]; std::printf("E %%zu %%p %%p\\n", e, (void*)r.data_begin(), (void*)r.data_end()); %(prints)s }
  int rz = 0; for (std::size_t i = 0; i < RZ; ++i) rz |= (g_base[g_bytes + i] != 0xA5); for (std::size_t i = 1; i <= 64; ++i) rz |= (g_base[-(long)i] != 0xA5);
  std::printf("R %%d\\n", rz);
  return 0;
}
''' % dict(sa=L.sa, k=k, ps=ps, ctor=ctor, decl=' '.join(decl), args=', '.join(args), prints=' '.join(prints))


def _au(x, a): return (x + a - 1) // a * a


def run(u, r, ob, trace):
    if not u['id'].startswith('lay.'):
        return None
    spec = u['config'].split(': ', 1)[1]
    L = layout.Layout(spec)
    cex = vf.cex_inputs(trace)
    def num(name, default=1):
        v = cex.get(name) or cex.get('g_' + name)
        m = re.match(r'(\d+)', v or '')
        return int(m.group(1)) if m else default
    fs = [min(num('fs%d' % k), 64) for k in range(L.nfixed)]
    vc = [min(num('vc%d' % k), 64) for k in range(L.nvar)]
    k = min(num('k', 1), 9)
    src = _prog(L, fs, vc, k)
    with tempfile.TemporaryDirectory(dir=os.path.join(vf.BUILD)) as td:
        open(os.path.join(td, 'replay.cpp'), 'w').write(src)
        c = subprocess.run(['g++', '-std=c++17', '-DNDEBUG', '-I' + os.path.join(vf.REPO, 'src'), 'replay.cpp', '-o', 'replay'], cwd=td, capture_output=True, text=True)
        if c.returncode != 0:
            return {'reproduced': False, 'note': 'replay program does not compile: ' + c.stderr[-400:], 'inputs': {'fs': fs, 'vc': vc, 'k': k}}
        p = subprocess.run(['./replay'], cwd=td, capture_output=True, text=True, timeout=60)
    problems = []
    fields = {}; elems = {}; base = None
    for ln in p.stdout.split('\n'):
        t = ln.split()
        if not t: continue
        if t[0] == 'B': base, cons, blk, used = int(t[1], 16), int(t[2]), int(t[3]), int(t[4])
        if t[0] == 'E': elems[int(t[1])] = (int(t[2], 16), int(t[3], 16))
        if t[0] == 'F': fields[(int(t[1]), int(t[2]))] = (int(t[3], 16), int(t[4], 16))
        if t[0] == 'R' and t[1] != '0': problems.append('bytes outside the allocator block were written (red zone damaged)')
    if p.returncode != 0 or base is None:
        problems.append('replay program crashed (exit %s): %s' % (p.returncode, p.stderr[-300:]))
    else:
        if used > cons: problems.append('data_end - data_begin = %d exceeds memory_consumption() = %d' % (used, cons))
        prev_end = base
        for e in range(2):
            start = _au(prev_end, L.sa) if e else base
            if elems.get(e, (None,))[0] != start: problems.append('element %d starts at +%d, lowest storage-aligned address is +%d' % (e, elems[e][0] - base, start - base))
            pos = start
            for i, prm in enumerate(L.params):
                cnt = 1 if prm.kind in 'pc' else (fs[sum(1 for q in L.params[:i] if q.kind == 'f')] if prm.kind == 'f' else vc[sum(1 for q in L.params[:i] if q.kind == 'v')])
                b = _au(pos, prm.align); e_ = b + prm.size * cnt
                got = fields.get((e, i))
                if got is None: continue
                if got[0] % prm.align: problems.append('field %d of element %d at address %% %d == %d' % (i, e, prm.align, got[0] % prm.align))
                if (cnt or prm.kind in 'pc') and got[0] != b: problems.append('field %d of element %d begins at +%d, tight in-order layout puts it at +%d' % (i, e, got[0] - start, b - start))
                if got[1] - got[0] != prm.size * cnt: problems.append('field %d of element %d holds %d bytes, expected %d' % (i, e, got[1] - got[0], prm.size * cnt))
                pos = e_
            prev_end = pos
    return {'reproduced': bool(problems), 'recipe': 'layout', 'inputs': {'parameter_list': spec, 'fixed_sizes': fs, 'varying_counts': vc, 'base_offset_multiplier': k},
            'native_output': p.stdout[-1500:], 'mismatches': problems}
