#!/bin/bash
# usage: try_mutant.sh <seeded dir name> <property>...   applies the seeded patch to a scratch worktree of /repo (never to
# /repo itself), runs the checks against it (VERIF_REPO), reverts.  The registered commands always use /repo.
m=$1; shift
wt=${MUT_WT:-/tmp/wtm}
cd $wt && git checkout -q --detach $(git -C /repo rev-parse HEAD) && git checkout -q -- . || exit 3
git apply /verif/seeded/$m/patch.diff || { echo "== $m: patch does not apply"; exit 3; }
cd /verif
for p in "$@"; do
  out=$(VERIF_REPO=$wt VERIF_EVIDENCE_DIR=/tmp/mut_evidence ./check $p --tier ${TIER:-quick} 2>&1); rc=$?
  echo "== $m vs $p: exit=$rc"; echo "$out" | grep -E "VIOLATION|KNOWN|UNDECIDED|tier=" | cut -c1-260 | head -${LINES_MAX:-6}
done
git -C $wt checkout -q -- .
