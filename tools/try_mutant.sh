#!/bin/bash
# usage: try_mutant.sh <seeded dir name> <property>...   applies the seeded patch to /repo, runs the checks, reverts
m=$1; shift
cd /repo && git diff --quiet || { echo "/repo not clean"; exit 3; }
git apply /verif/seeded/$m/patch.diff || { echo "patch does not apply"; exit 3; }
cd /verif
for p in "$@"; do
  out=$(./check $p --tier ${TIER:-quick} 2>&1); rc=$?
  echo "== $m vs $p: exit=$rc"; echo "$out" | grep -E "VIOLATION|KNOWN|UNDECIDED|tier=" | cut -c1-260 | head -${LINES_MAX:-6}
done
git -C /repo checkout -- .
