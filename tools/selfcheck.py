#!/usr/bin/env python3
"""setup: verify the tools the framework needs are present (nothing is downloaded or built ahead of time)"""
import shutil, sys, subprocess
missing = [t for t in ('clang++', 'goto-cc', 'goto-instrument', 'cbmc', 'c++filt', 'g++') if not shutil.which(t)]
if missing:
    print('missing tools:', missing); sys.exit(1)
print(subprocess.run(['cbmc', '--version'], capture_output=True, text=True).stdout.strip())
