#!/usr/bin/env python3
"""Prototype: LLVM-14 textual IR (-O0, typed pointers) -> C for CBMC.  Scratch feasibility probe."""
import re, sys, subprocess, json

# ---------------------------------------------------------------- tokenizer
TOK = re.compile(r'''
    (?P<ws>\s+)
  | (?P<str>c"(?:[^"\\]|\\[0-9A-Fa-f]{2}|\\\\)*")
  | (?P<qid>[%@]"(?:[^"\\]|\\.)*")
  | (?P<id>[%@][-a-zA-Z$._0-9]+)
  | (?P<attr>\#[0-9]+)
  | (?P<meta>![-a-zA-Z$._0-9]*)
  | (?P<num>-?[0-9]+\.[0-9]+e[+-][0-9]+|0x[0-9A-Fa-f]+|-?[0-9]+)
  | (?P<word>[a-zA-Z_][a-zA-Z0-9_.]*)
  | (?P<dots>\.\.\.)
  | (?P<qstr>"(?:[^"\\]|\\.)*")
  | (?P<p>[()\[\]{}<>,=*])
''', re.X)

def tokenize(s):
    out = []
    i = 0
    while i < len(s):
        m = TOK.match(s, i)
        if not m:
            raise SyntaxError('tokenize: %r' % s[i:i+40])
        i = m.end()
        k = m.lastgroup
        if k == 'ws':
            continue
        out.append((k, m.group(k)))
    return out

class P:
    def __init__(self, toks):
        self.t = toks; self.i = 0
    def peek(self, o=0):
        return self.t[self.i+o] if self.i+o < len(self.t) else ('eof', '')
    def next(self):
        x = self.peek(); self.i += 1; return x
    def accept(self, v):
        if self.peek()[1] == v:
            self.i += 1; return True
        return False
    def expect(self, v):
        x = self.next()
        if x[1] != v:
            raise SyntaxError('expected %r got %r (ctx %r)' % (v, x, self.t[max(0,self.i-6):self.i+4]))
    def eof(self):
        return self.i >= len(self.t)

# ---------------------------------------------------------------- types
# type repr: ('int',N) ('float',) ('double',) ('void',) ('ptr',T) ('arr',N,T) ('struct',name) ('lit',[T..],packed) ('fn',ret,[args],vararg) ('opaque',)
def parse_type(p):
    k, v = p.next()
    if k == 'word' and re.fullmatch(r'i[0-9]+', v):
        t = ('int', int(v[1:]))
    elif v in ('float', 'double', 'void', 'label', 'metadata'):
        t = (v,)
    elif k in ('id', 'qid') and v[0] == '%':
        t = ('struct', v[1:].strip('"'))
    elif v == '[':
        n = int(p.next()[1]); p.expect('x'); e = parse_type(p); p.expect(']')
        t = ('arr', n, e)
    elif v == '{':
        fs = []
        if not p.accept('}'):
            while True:
                fs.append(parse_type(p))
                if p.accept('}'): break
                p.expect(',')
        t = ('lit', tuple(fs), False)
    elif v == '<' and p.peek()[1] == '{':
        p.next(); fs = []
        if not p.accept('}'):
            while True:
                fs.append(parse_type(p))
                if p.accept('}'): break
                p.expect(',')
        p.expect('>')
        t = ('lit', tuple(fs), True)
    elif v == 'opaque':
        t = ('opaque',)
    else:
        raise SyntaxError('type? %r %r' % (k, v))
    while True:
        if p.accept('*'):
            t = ('ptr', t)
        elif p.peek()[1] == '(' :
            # function type
            p.next(); args = []; va = False
            if not p.accept(')'):
                while True:
                    if p.peek()[0] == 'dots':
                        p.next(); va = True
                    else:
                        args.append(parse_type(p))
                    if p.accept(')'): break
                    p.expect(',')
            t = ('fn', t, tuple(args), va)
        else:
            return t

class Ctx:
    def __init__(self):
        self.structs = {}      # name -> ('lit', fields, packed) | ('opaque',)
        self.lits = {}         # literal struct type -> cname
        self.arrs = {}         # arr type -> cname
        self.order = []        # emission order of aggregate typedefs
        self.globals = {}      # name -> (type, init or None, const)
        self.funcs = {}        # name -> Func
        self.decls = {}        # name -> (ret, [argtypes], vararg)
        self.aliases = {}      # alias name -> target function name
        self.bytestructs = set()

def mang(n):
    n = n.strip('"')
    return re.sub(r'[^A-Za-z0-9_]', lambda m: '_%02x' % ord(m.group(0)), n)

def ctype(cx, t):
    """C type name usable as a prefix type (arrays & fn pointers wrapped)."""
    k = t[0]
    if k == 'int':
        n = t[1]
        if n == 1: return '_Bool'
        if n <= 8: return 'uint8_t'
        if n <= 16: return 'uint16_t'
        if n <= 32: return 'uint32_t'
        if n <= 64: return 'uint64_t'
        return 'unsigned __int128'
    if k in ('float', 'double', 'void'): return k
    if k == 'ptr':
        if t[1][0] == 'fn': return 'void*'
        if t[1][0] == 'opaque': return 'void*'
        return ctype(cx, t[1]) + '*'
    if k == 'struct':
        return 'struct S_' + mang(t[1])
    if k == 'lit':
        if t not in cx.lits:
            for f in t[1]: ctype(cx, f)
            cx.lits[t] = 'L%d' % len(cx.lits)
            cx.order.append(t)
        return 'struct ' + cx.lits[t]
    if k == 'arr':
        if t not in cx.arrs:
            ctype(cx, t[2])
            cx.arrs[t] = 'A%d' % len(cx.arrs)
            cx.order.append(t)
        return 'struct ' + cx.arrs[t]
    if k == 'opaque': return 'void'
    raise ValueError(t)

def fields_of(cx, t):
    if t[0] == 'struct':
        return fields_of(cx, cx.structs[t[1]])
    if t[0] == 'lit':
        return t[1]
    raise ValueError('not struct %r' % (t,))

# ---------------------------------------------------------------- values / constants
STATIC_INIT = False
def agg(cx, t, inner):
    return inner if STATIC_INIT else '((%s)%s)' % (ctype(cx, t), inner)

def parse_const(cx, p, t):
    """parse a value of type t; returns C expression string."""
    k, v = p.peek()
    if k == 'id' or k == 'qid':
        p.next()
        if v[0] == '%':
            return 'v_' + mang(v[1:])
        gn = v[1:].strip('"')
        return '&g_' + mang(gn) if gn in cx.globals else 'f_' + mang(cx.aliases.get(gn, gn))
    if k == 'num':
        p.next()
        if t[0] in ('float', 'double'):
            if v.startswith('0x'):
                import struct
                d = struct.unpack('>d', bytes.fromhex(v[2:].rjust(16, '0')))[0]
                return repr(d) if d == d and abs(d) != float('inf') else ('(0.0/0.0)' if d != d else ('(1.0/0.0)' if d > 0 else '(-1.0/0.0)'))
            return v
        if t[0] == 'int':
            n = int(v)
            if n < 0: n += 1 << t[1]
            return '((%s)%dull)' % (ctype(cx, t), n) if t[1] != 1 else str(n)
        return v
    if v in ('true', 'false'):
        p.next(); return '1' if v == 'true' else '0'
    if v == 'null':
        p.next(); return '((%s)0)' % ctype(cx, t)
    if v in ('undef', 'poison', 'zeroinitializer'):
        p.next()
        if t[0] in ('int', 'float', 'double'): return '0'
        if t[0] == 'ptr': return '((%s)0)' % ctype(cx, t)
        return agg(cx, t, '{0}')
    if v == '{' or (v == '<' and p.peek(1)[1] == '{'):
        packed = v == '<'
        if packed: p.next()
        p.next(); vals = []
        if not p.accept('}'):
            while True:
                ft = parse_type(p); vals.append(parse_const(cx, p, ft))
                if p.accept('}'): break
                p.expect(',')
        if packed: p.expect('>')
        return agg(cx, t, '{%s}' % ', '.join(vals))
    if v == '[':
        p.next(); vals = []
        if not p.accept(']'):
            while True:
                ft = parse_type(p); vals.append(parse_const(cx, p, ft))
                if p.accept(']'): break
                p.expect(',')
        return agg(cx, t, '{{%s}}' % ', '.join(vals))
    if k == 'str':
        p.next()
        raw = v[2:-1]
        bs = []
        i = 0
        while i < len(raw):
            if raw[i] == '\\':
                if raw[i+1] == '\\': bs.append(92); i += 2
                else: bs.append(int(raw[i+1:i+3], 16)); i += 3
            else:
                bs.append(ord(raw[i])); i += 1
        return agg(cx, t, '{{%s}}' % ','.join(map(str, bs)))
    if v in ('bitcast', 'inttoptr', 'ptrtoint', 'addrspacecast', 'trunc', 'zext', 'sext'):
        p.next(); p.expect('(')
        st = parse_type(p); e = parse_const(cx, p, st); p.expect('to'); dt = parse_type(p); p.expect(')')
        return cast_expr(cx, v, st, e, dt)
    if v == 'getelementptr':
        p.next(); p.accept('inbounds'); p.expect('(')
        return parse_gep_tail(cx, p, ')')[0]
    if v in ('add', 'sub', 'mul', 'and', 'or', 'xor'):
        p.next()
        while p.peek()[1] in ('nsw', 'nuw'): p.next()
        p.expect('(')
        t1 = parse_type(p); a = parse_const(cx, p, t1); p.expect(','); t2 = parse_type(p); b = parse_const(cx, p, t2); p.expect(')')
        op = {'add': '+', 'sub': '-', 'mul': '*', 'and': '&', 'or': '|', 'xor': '^'}[v]
        return '((%s)(%s %s %s))' % (ctype(cx, t1), a, op, b)
    raise SyntaxError('const? %r %r' % (k, v))

def cast_expr(cx, op, st, e, dt):
    d = ctype(cx, dt)
    if op == 'sext':
        return '((%s)(int%d_t)(%s%s))' % (d, max(8, st[1]) if st[1] in (8, 16, 32, 64) else 64, e, '' if st[1] != 1 else ' ? -1 : 0')
    if op == 'trunc' and dt[1] == 1:
        return '((%s) & 1)' % e
    if op in ('sitofp',):
        return '((%s)(int%d_t)(%s))' % (d, st[1], e)
    if op in ('fptosi',):
        return '((%s)(int%d_t)(%s))' % (d, dt[1], e)
    if op in ('ptrtoint',):
        return '((%s)(uintptr_t)(%s))' % (d, e)
    if op in ('inttoptr',):
        return '((%s)(uintptr_t)(%s))' % (d, e)
    return '((%s)(%s))' % (d, e)

def parse_gep_tail(cx, p, closer):
    """after 'getelementptr [inbounds] (' or after the mnemonic in an instruction.  Returns (cexpr, result type)."""
    bt = parse_type(p); p.expect(',')
    pt = parse_type(p); base = parse_const(cx, p, pt)
    idx = []
    while p.accept(','):
        p.accept('inrange')
        it = parse_type(p)
        raw = int(p.peek()[1]) if p.peek()[0] == 'num' else None
        iv = parse_const(cx, p, it)
        idx.append((it, iv, raw))
    if closer: p.expect(closer)
    # first index scales the pointer
    it, iv, _ = idx[0]
    e = '(%s)[%s]' % (base, signed(it, iv))
    cur = bt
    for it, iv, raw in idx[1:]:
        if cur[0] == 'struct' or cur[0] == 'lit':
            fs = fields_of(cx, cur)
            n = raw
            e += '.f%d' % n
            cur = fs[n]
        elif cur[0] == 'arr':
            e += '.a[%s]' % signed(it, iv)
            cur = cur[2]
        else:
            raise ValueError('gep into %r' % (cur,))
    return '(&%s)' % e, ('ptr', cur)

def signed(t, v):
    if t[0] == 'int' and t[1] in (8, 16, 32, 64):
        return '(int%d_t)%s' % (t[1], v)
    return v

# ---------------------------------------------------------------- function translation
class Func:
    pass

BINOPS = {'add': '+', 'sub': '-', 'mul': '*', 'and': '&', 'or': '|', 'xor': '^', 'shl': '<<', 'lshr': '>>',
          'udiv': '/', 'urem': '%', 'fadd': '+', 'fsub': '-', 'fmul': '*', 'fdiv': '/'}
SBINOPS = {'sdiv': '/', 'srem': '%', 'ashr': '>>'}
ICMP = {'eq': '==', 'ne': '!=', 'ugt': '>', 'uge': '>=', 'ult': '<', 'ule': '<='}
SICMP = {'sgt': '>', 'sge': '>=', 'slt': '<', 'sle': '<='}
FCMP = {'oeq': '==', 'one': '!=', 'ogt': '>', 'oge': '>=', 'olt': '<', 'ole': '<=', 'ueq': '==', 'une': '!=', 'ugt': '>', 'uge': '>=', 'ult': '<', 'ule': '<='}
PARAM_ATTRS = {'noundef', 'nonnull', 'noalias', 'nocapture', 'readonly', 'writeonly', 'returned', 'signext', 'zeroext', 'inreg', 'immarg', 'nest', 'readnone', 'nofree', 'swiftself'}

def skip_param_attrs(p):
    """returns dict with byval/sret if present"""
    info = {}
    while True:
        k, v = p.peek()
        if v in PARAM_ATTRS:
            p.next()
        elif v in ('align',):
            p.next(); p.next()
        elif v in ('dereferenceable', 'dereferenceable_or_null'):
            p.next(); p.expect('('); p.next(); p.expect(')')
        elif v in ('byval', 'sret', 'byref', 'preallocated', 'inalloca', 'elementtype'):
            p.next(); p.expect('('); info[v] = parse_type(p); p.expect(')')
        else:
            return info

def parse_module(text):
    cx = Ctx()
    lines = text.split('\n')
    i = 0
    # functions that cannot propagate an exception (nounwind): no "exception pending" check after calls to them
    nounwind_groups = set(m.group(1) for m in re.finditer(r'^attributes (#\d+) = \{[^}]*\bnounwind\b', text, re.M))
    cx.nounwind = set()
    for m in re.finditer(r'^(?:define|declare)[^@]*@("[^"]*"|[-a-zA-Z$._0-9]+)\(.*?\)[^#\n]*((?:#\d+ ?)*)', text, re.M):
        if any(g in nounwind_groups for g in m.group(2).split()):
            cx.nounwind.add(m.group(1).strip('"'))
    # pass 1: struct types (so that later parsing can resolve field lists)
    for ln in lines:
        m = re.match(r'^(%(?:"[^"]*"|[-a-zA-Z$._0-9]+)) = type (.*)$', ln)
        if m:
            p = P(tokenize(m.group(2)))
            cx.structs[m.group(1)[1:].strip('"')] = parse_type(p)
    # pass 2: globals + functions
    fn = None
    while i < len(lines):
        ln = lines[i]
        if ln.startswith(('@', 'define', 'declare')):
            ln = re.sub(r'\bcomdat(\(\$(?:"[^"]*"|[^)]*)\))?', '', ln)
        if ln.startswith('@'):
            m = re.match(r'^(@(?:"[^"]*"|[-a-zA-Z$._0-9]+)) = (.*)$', ln)
            name = m.group(1)[1:].strip('"'); rest = m.group(2)
            if re.search(r'\balias\b', rest.split('(')[0]):
                tgt = rest.rsplit('@', 1)[1].strip().strip('"')
                cx.aliases[name] = tgt
                i += 1
                continue
            p = P(tokenize(rest))
            const = False
            while p.peek()[1] not in ('global', 'constant'):
                if p.eof(): raise SyntaxError('global? ' + ln[:120])
                p.next()
                if p.peek()[1] == '(':   # e.g. thread_local(...)
                    while p.next()[1] != ')': pass
            const = p.next()[1] == 'constant'
            t = parse_type(p)
            cx.globals[name] = [t, None, const, p]   # init parsed lazily (needs all globals known)
        elif ln.startswith('declare'):
            p = P(tokenize(ln))
            p.next()
            hdr = parse_fn_header(cx, p)
            cx.decls[hdr[0]] = hdr
        elif ln.startswith('define'):
            p = P(tokenize(ln[:ln.rindex('{')]))
            p.next()
            hdr = parse_fn_header(cx, p)
            body = []
            i += 1
            while lines[i] != '}':
                body.append(lines[i]); i += 1
            f = Func(); f.name, f.ret, f.params, f.vararg = hdr; f.body = body
            cx.funcs[f.name] = f
        i += 1
    for name, g in cx.globals.items():
        p = g[3]
        if p.peek()[0] != 'eof' and p.peek()[1] != ',':
            global STATIC_INIT
            STATIC_INIT = True
            g[1] = parse_const(cx, p, g[0])
            STATIC_INIT = False
    return cx

LINKAGE = {'private', 'internal', 'linkonce_odr', 'linkonce', 'weak', 'weak_odr', 'external', 'available_externally', 'dso_local', 'dso_preemptable',
           'hidden', 'protected', 'default', 'unnamed_addr', 'local_unnamed_addr', 'fastcc', 'ccc', 'coldcc', 'extern_weak', 'common'}

def parse_fn_header(cx, p):
    while p.peek()[1] in LINKAGE or p.peek()[1] in PARAM_ATTRS:
        p.next()
    skip_param_attrs(p)
    ret = parse_type_nofn(p)
    name = p.next()[1][1:].strip('"')
    p.expect('(')
    params = []; va = False
    if not p.accept(')'):
        while True:
            if p.peek()[0] == 'dots':
                p.next(); va = True
            else:
                t = parse_type(p); info = skip_param_attrs(p)
                pn = None
                if p.peek()[0] in ('id', 'qid'):
                    pn = p.next()[1][1:]
                params.append((t, pn, info))
            if p.accept(')'): break
            p.expect(',')
    return name, ret, params, va

def parse_type_nofn(p):
    # return types: parse_type would swallow "(args)" as a function type; temporarily guard
    save = p.i
    t = parse_type(p)
    if t[0] == 'fn':
        # re-parse without the function suffix
        p.i = save
        t = parse_type_base_only(p)
    return t

def parse_type_base_only(p):
    # parse a type but stop before '(' (used for return types in headers and calls)
    start = p.i
    # find the matching point: parse greedily but refuse '(' continuation
    k, v = p.peek()
    sub = P(p.t[p.i:])
    # custom loop replicating parse_type without fn suffix
    def base(sp):
        return parse_type(P_guard(sp))
    raise NotImplementedError

class P_guard(P):
    pass

# simpler: a version of parse_type with a flag
_orig_parse_type = parse_type
def parse_type(p, allow_fn=True):
    k, v = p.next()
    if k == 'word' and re.fullmatch(r'i[0-9]+', v):
        t = ('int', int(v[1:]))
    elif v in ('float', 'double', 'void', 'label', 'metadata'):
        t = (v,)
    elif k in ('id', 'qid') and v[0] == '%':
        t = ('struct', v[1:].strip('"'))
    elif v == '[':
        n = int(p.next()[1]); p.expect('x'); e = parse_type(p); p.expect(']')
        t = ('arr', n, e)
    elif v == '{':
        fs = []
        if not p.accept('}'):
            while True:
                fs.append(parse_type(p))
                if p.accept('}'): break
                p.expect(',')
        t = ('lit', tuple(fs), False)
    elif v == '<' and p.peek()[1] == '{':
        p.next(); fs = []
        if not p.accept('}'):
            while True:
                fs.append(parse_type(p))
                if p.accept('}'): break
                p.expect(',')
        p.expect('>')
        t = ('lit', tuple(fs), True)
    elif v == 'opaque':
        t = ('opaque',)
    else:
        raise SyntaxError('type? %r %r ctx=%r' % (k, v, p.t[max(0,p.i-5):p.i+5]))
    while True:
        if p.accept('*'):
            t = ('ptr', t)
        elif p.peek()[1] == '(' and is_fn_type_suffix(p):
            p.next(); args = []; va = False
            if not p.accept(')'):
                while True:
                    if p.peek()[0] == 'dots':
                        p.next(); va = True
                    else:
                        args.append(parse_type(p))
                    if p.accept(')'): break
                    p.expect(',')
            t = ('fn', t, tuple(args), va)
        else:
            return t

def is_fn_type_suffix(p):
    """'(' after a type starts a function type iff the matching ')' is followed by '*'."""
    depth = 0; j = p.i
    while j < len(p.t):
        v = p.t[j][1]
        if v == '(': depth += 1
        elif v == ')':
            depth -= 1
            if depth == 0:
                return j + 1 < len(p.t) and p.t[j+1][1] == '*'
        j += 1
    return False

def parse_type_nofn(p):
    return parse_type(p)

def zero_of(cx, t):
    if t[0] == 'void': return ''
    if t[0] in ('int', 'float', 'double'): return '0'
    if t[0] == 'ptr': return '((%s)0)' % ctype(cx, t)
    return '((%s){0})' % ctype(cx, t)

def translate_function(cx, f, out, contracts):
    vt = {}      # value name -> type
    code = []    # (kind, text)
    for t, pn, info in f.params:
        if pn: vt[pn] = t
    phis = {}    # pred label -> list of (dst, val) per succ
    # first pass: join multi-line instructions
    body = []
    for ln in f.body:
        s = ln.split(' ; preds')[0] if re.match(r'^[-a-zA-Z$._0-9"]+:', ln) else ln
        if ln.startswith('          ') and body:   # continuation (invoke/landingpad clauses)
            body[-1] += ' ' + ln.strip()
        elif ln.strip() == '' :
            continue
        elif re.match(r'^\s+\]', ln) or (body and body[-1].rstrip().endswith('[') and 'switch' in body[-1]) or (body and 'switch' in body[-1] and not body[-1].rstrip().endswith(']') and re.match(r'^\s+i[0-9]+ ', ln)):
            body[-1] += ' ' + ln.strip()
        else:
            body.append(s)
    # allocas used only as the address operand of loads and stores become plain C locals (no pointer indirection):
    # the same fact mem2reg relies on; it removes thousands of pointer writes from the assigns-clause checking.
    allocas = set()
    for ln in body:
        m = re.match(r'^\s+(%(?:"[^"]*"|[-a-zA-Z$._0-9]+)) = alloca ', ln)
        if m: allocas.add(m.group(1))
    escaped = set()
    for ln in body:
        if ' = alloca ' in ln or not ln.startswith(' '): continue
        toks = [v for k, v in tokenize(ln)]
        idx = [i for i, v in enumerate(toks) if v in allocas]
        if not idx: continue
        opi = 2 if len(toks) > 2 and toks[1] == '=' else 0
        op = toks[opi]
        for i in idx:
            ok = False
            nxt = toks[i + 1] if i + 1 < len(toks) else ','
            if op == 'load' and nxt == ',' and toks[i - 1] == '*':
                ok = toks.count(toks[i]) == 1
            elif op == 'store' and nxt == ',' and toks[i - 1] == '*':
                # must be the address operand: i.e. a depth-0 comma occurs before it
                depth = 0; seen_comma = False
                for v in toks[opi + 1:i]:
                    if v in '([{<': depth += 1
                    elif v in ')]}>': depth -= 1
                    elif v == ',' and depth == 0: seen_comma = True
                ok = seen_comma and toks.count(toks[i]) == 1
            if not ok: escaped.add(toks[i])
    promoted = {'v_' + mang(a[1:]): 'm_' + mang(a[1:]) for a in allocas - escaped}
    cur_label = 'entry'
    blocks = []  # list of (label, [c statements])
    stmts = []
    blocks.append((cur_label, stmts))
    first = True
    def val(p, t):
        return parse_const(cx, p, t)
    retz = zero_of(cx, f.ret)
    def after_call():
        return ' if (cntgs_exc) return %s;' % retz if not NOEXC else ''
    for ln in body:
        m = re.match(r'^("?[-a-zA-Z$._0-9]+"?):', ln)
        if m and not ln.startswith(' '):
            cur_label = m.group(1).strip('"')
            stmts = []
            if first and not blocks[0][1]:
                blocks[0] = (cur_label, stmts)
            else:
                blocks.append((cur_label, stmts))
            first = False
            continue
        first = False
        p = P(tokenize(ln.split(', !')[0] if False else ln))
        dst = None
        if p.peek()[0] in ('id', 'qid') and p.peek(1)[1] == '=':
            dst = p.next()[1][1:]; p.next()
        op = p.next()[1]
        def setv(t, e):
            vt[dst] = t
            stmts.append('v_%s = %s;' % (mang(dst), e))
        if op == 'alloca':
            t = parse_type(p)
            vt['$alloca$' + dst] = t
            if 'v_' + mang(dst) not in promoted:
                vt[dst] = ('ptr', t)
                stmts.append('v_%s = &m_%s;' % (mang(dst), mang(dst)))
        elif op == 'load':
            p.accept('volatile')
            t = parse_type(p); p.expect(','); pt = parse_type(p); a = val(p, pt)
            setv(t, promoted[a] if a in promoted else '*(%s)' % a)
        elif op == 'store':
            p.accept('volatile')
            t = parse_type(p); v = val(p, t); p.expect(','); pt = parse_type(p); a = val(p, pt)
            stmts.append('%s = %s;' % (promoted[a] if a in promoted else '*(%s)' % a, v))
        elif op == 'getelementptr':
            p.accept('inbounds')
            e, rt = parse_gep_tail(cx, p, None)
            setv(rt, e)
        elif op in ('bitcast', 'ptrtoint', 'inttoptr', 'trunc', 'zext', 'sext', 'fptrunc', 'fpext', 'sitofp', 'uitofp', 'fptosi', 'fptoui', 'addrspacecast'):
            st = parse_type(p); e = val(p, st); p.expect('to'); dt = parse_type(p)
            setv(dt, cast_expr(cx, op, st, e, dt))
        elif op in BINOPS or op in SBINOPS:
            while p.peek()[1] in ('nsw', 'nuw', 'exact', 'fast', 'nnan', 'ninf', 'nsz', 'arcp', 'contract', 'afn', 'reassoc'): p.next()
            t = parse_type(p); a = val(p, t); p.expect(','); b = val(p, t)
            if op in SBINOPS:
                e = '((%s)((int%d_t)%s %s (int%d_t)%s))' % (ctype(cx, t), t[1], a, SBINOPS[op], t[1], b)
            else:
                e = '((%s)(%s %s %s))' % (ctype(cx, t), a, BINOPS[op], b)
            setv(t, e)
        elif op == 'fneg':
            t = parse_type(p); a = val(p, t); setv(t, '(-%s)' % a)
        elif op == 'icmp':
            pred = p.next()[1]; t = parse_type(p); a = val(p, t); p.expect(','); b = val(p, t)
            if pred in SICMP:
                if t[0] == 'ptr':
                    e = '((intptr_t)%s %s (intptr_t)%s)' % (a, SICMP[pred], b)
                else:
                    e = '((int%d_t)%s %s (int%d_t)%s)' % (t[1], a, SICMP[pred], t[1], b)
            else:
                if t[0] == 'ptr' and pred not in ('eq', 'ne'):
                    e = '((uintptr_t)%s %s (uintptr_t)%s)' % (a, ICMP[pred], b)
                else:
                    e = '(%s %s %s)' % (a, ICMP[pred], b)
            setv(('int', 1), e)
        elif op == 'fcmp':
            while p.peek()[1] in ('fast', 'nnan', 'ninf', 'nsz', 'arcp', 'contract', 'afn', 'reassoc'): p.next()
            pred = p.next()[1]; t = parse_type(p); a = val(p, t); p.expect(','); b = val(p, t)
            setv(('int', 1), '(%s %s %s)' % (a, FCMP[pred], b))
        elif op == 'select':
            ct = parse_type(p); c = val(p, ct); p.expect(','); t = parse_type(p); a = val(p, t); p.expect(','); t2 = parse_type(p); b = val(p, t2)
            setv(t, '(%s ? %s : %s)' % (c, a, b))
        elif op == 'phi':
            t = parse_type(p)
            vt[dst] = t
            while True:
                p.expect('['); v = val(p, t); p.expect(','); lab = p.next()[1][1:].strip('"'); p.expect(']')
                phis.setdefault(lab, []).append((cur_label, 'v_%s = %s;' % (mang(dst), v)))
                if not p.accept(','): break
        elif op == 'extractvalue':
            t = parse_type(p); a = val(p, t); cur = t; e = a
            while p.accept(','):
                n = int(p.next()[1])
                if cur[0] == 'arr': e += '.a[%d]' % n; cur = cur[2]
                else: e += '.f%d' % n; cur = fields_of(cx, cur)[n]
            setv(cur, e)
        elif op == 'insertvalue':
            t = parse_type(p); a = val(p, t); p.expect(','); et = parse_type(p); ev = val(p, et)
            path = ''; cur = t
            while p.accept(','):
                n = int(p.next()[1])
                if cur[0] == 'arr': path += '.a[%d]' % n; cur = cur[2]
                else: path += '.f%d' % n; cur = fields_of(cx, cur)[n]
            vt[dst] = t
            stmts.append('v_%s = %s; v_%s%s = %s;' % (mang(dst), a, mang(dst), path, ev))
        elif op in ('call', 'invoke'):
            while p.peek()[1] in ('tail', 'musttail', 'notail', 'fastcc', 'ccc') or p.peek()[1] in PARAM_ATTRS: p.next()
            skip_param_attrs(p)
            rt = parse_type(p)
            if rt[0] == 'ptr' and rt[1][0] == 'fn':   # "call void (i8*, ...)* @f" style
                rt = rt[1][1]
            elif rt[0] == 'fn':
                rt = rt[1]
            k, callee = p.next()
            callee_raw = callee[1:].strip('"')
            indirect = callee[0] == '%'
            p.expect('(')
            args = []
            if not p.accept(')'):
                while True:
                    at = parse_type(p); info = skip_param_attrs(p)
                    if at[0] == 'metadata':
                        while p.peek()[1] not in (',', ')'): p.next()
                        args.append((at, '0', info))
                    else:
                        args.append((at, val(p, at), info))
                    if p.accept(')'): break
                    p.expect(',')
            bundles = []
            rest = ln[ln.find(')', 0):]
            mb = re.search(r'\[ "align"\((.*?)\) \]', ln)
            cname = None
            if indirect:
                fty = '%s (*)(%s)' % (ctype(cx, rt), ', '.join(ctype(cx, a[0]) for a in args))
                call = '((%s)v_%s)(%s)' % (fty, mang(callee_raw), ', '.join(a[1] for a in args))
            elif callee_raw.startswith('llvm.'):
                call = intrinsic(cx, callee_raw, args, mb, ln)
            else:
                pre = []
                al = []
                for n, (at, av, info) in enumerate(args):
                    if 'byval' in info:
                        tmp = 'bv_%s_%d' % (mang(dst or ('c%d' % len(stmts))), n)
                        pre.append('%s %s = *(%s);' % (ctype(cx, info['byval']), tmp, av))
                        al.append('&' + tmp)
                    else:
                        al.append(av)
                callee_raw = cx.aliases.get(callee_raw, callee_raw)
                call = 'f_%s(%s)' % (mang(callee_raw), ', '.join(al))
                cx.called = getattr(cx, 'called', set()); cx.called.add(callee_raw)
                if pre:
                    stmts.append('{ ' + ' '.join(pre))
            if call is not None:
                if dst and rt[0] != 'void':
                    vt[dst] = rt
                    stmts.append('v_%s = %s;' % (mang(dst), call))
                else:
                    stmts.append('%s;' % call)
                if not indirect and not callee_raw.startswith('llvm.') and pre:
                    stmts.append('}')
            if op == 'invoke':
                mm = re.search(r'to label %("?[-a-zA-Z$._0-9]+"?) unwind label %("?[-a-zA-Z$._0-9]+"?)', ln)
                ok, lp = mm.group(1).strip('"'), mm.group(2).strip('"')
                stmts.append(('br2', 'cntgs_exc', lp, ok))
            elif not callee_raw.startswith('llvm.'):
                if not NOEXC and (indirect or callee_raw not in cx.nounwind): stmts.append('if (cntgs_exc) return %s;' % retz)
        elif op == 'landingpad':
            t = parse_type(p)
            vt[dst] = t
            stmts.append('cntgs_exc = 0; v_%s = (%s){(uint8_t*)1, 0};' % (mang(dst), ctype(cx, t)))
        elif op == 'resume':
            stmts.append('cntgs_exc = 1; return %s;' % retz)
        elif op == 'br':
            if p.peek()[1] == 'label':
                p.next(); lab = p.next()[1][1:].strip('"')
                stmts.append(('br', lab))
            else:
                t = parse_type(p); c = val(p, t); p.expect(','); p.expect('label'); a = p.next()[1][1:].strip('"'); p.expect(','); p.expect('label'); b = p.next()[1][1:].strip('"')
                stmts.append(('br2', c, a, b))
        elif op == 'switch':
            t = parse_type(p); c = val(p, t); p.expect(','); p.expect('label'); dflt = p.next()[1][1:].strip('"'); p.expect('[')
            cases = []
            while not p.accept(']'):
                ct = parse_type(p); cv = val(p, ct); p.expect(','); p.expect('label'); lab = p.next()[1][1:].strip('"')
                cases.append((cv, lab))
            stmts.append(('switch', c, cases, dflt))
        elif op == 'ret':
            t = parse_type(p)
            if t[0] == 'void': stmts.append('return;')
            else: stmts.append('return %s;' % val(p, t))
        elif op == 'unreachable':
            stmts.append('__CPROVER_assume(0);')
        else:
            raise SyntaxError('instr? %s in %s: %s' % (op, f.name, ln))
    # ---- emit
    ps = []
    for n, (t, pn, info) in enumerate(f.params):
        ps.append('%s v_%s' % (ctype(cx, t), mang(pn) if pn else 'p%d' % n))
    sig = '%s f_%s(%s)' % (ctype(cx, f.ret), mang(f.name), ', '.join(ps) or 'void')
    out.append(sig)
    for c in contracts.get(f.name, []):
        out.append('  ' + c)
    out.append('{')
    pnames = {pn for _, pn, _ in f.params}
    for n, t in vt.items():
        if n in pnames: continue
        if n.startswith('$alloca$'):
            out.append('  %s m_%s;' % (ctype(cx, t), mang(n[8:])))
        else:
            out.append('  %s v_%s;' % (ctype(cx, t), mang(n)))
    for lab, ss in blocks:
        out.append(' L_%s: ;' % mang(lab))
        for s in ss:
            if isinstance(s, tuple):
                def jump(to):
                    ph = ' '.join(x for (tgt, x) in phis.get(lab, []) if tgt == to)
                    return '{ %s goto L_%s; }' % (ph, mang(to))
                if s[0] == 'br': out.append('  ' + jump(s[1]))
                elif s[0] == 'br2': out.append('  if (%s) %s else %s' % (s[1], jump(s[2]), jump(s[3])))
                elif s[0] == 'switch':
                    out.append('  switch (%s) { %s default: %s }' % (s[1], ' '.join('case %s: %s' % (cv, jump(l)) for cv, l in s[2]), jump(s[3])))
            else:
                out.append('  ' + s)
    out.append('}')
    out.append('')

def intrinsic(cx, name, args, mb, ln):
    a = [x[1] for x in args]
    if name.startswith('llvm.memcpy') or name.startswith('llvm.memmove'):
        m = re.fullmatch(r'\(\(uint64_t\)(\d+)ull\)', a[2])
        if m and 0 < int(m.group(1)) <= 256:
            # constant-size copy (aggregate copies at -O0): a struct assignment of exactly n bytes; both ranges are
            # bounds-checked by CBMC's pointer checks on the dereferences
            n = int(m.group(1)); cx.bytestructs.add(n)
            if name.startswith('llvm.memmove'):
                return '{ struct VF_B%d vf_t = *(struct VF_B%d *)(%s); *(struct VF_B%d *)(%s) = vf_t; }' % (n, n, a[1], n, a[0])
            return '*(struct VF_B%d *)(%s) = *(struct VF_B%d *)(%s)' % (n, a[0], n, a[1])
        if m and int(m.group(1)) == 0: return '(void)0'
        return MEMPREFIX + ('memcpy' if name.startswith('llvm.memcpy') else 'memmove') + '(%s, %s, %s)' % (a[0], a[1], a[2])
    if name.startswith('llvm.memset'): return MEMPREFIX + 'memset(%s, %s, %s)' % (a[0], a[1], a[2])
    if name.startswith('llvm.lifetime') or name.startswith('llvm.dbg') or name.startswith('llvm.invariant'): return None
    if name == 'llvm.assume':
        if mb:
            q = P(tokenize(mb.group(1)))
            # reuse value parser: "i8* %p, i64 16"
            t1 = parse_type(q); v1 = parse_const(cx, q, t1); q.expect(','); t2 = parse_type(q); v2 = parse_const(cx, q, t2)
            return '__CPROVER_assert((((uintptr_t)%s) & (%s - 1)) == 0, "assume_aligned holds")' % (v1, v2)
        return '__CPROVER_assert(%s, "llvm.assume holds")' % a[0]
    if name.startswith('llvm.trap'): return '__CPROVER_assert(0, "trap")'
    if name.startswith('llvm.expect'): return a[0]
    raise SyntaxError('intrinsic %s' % name)

NOEXC = True
MEMPREFIX = 'vf_'

def translate_text(text, memprefix='vf_'):
    """Translate one LLVM module (text) to C.  Returns (c_source, names) where names maps
    C identifiers to demangled names for functions ('funcs'), externs ('externs') and struct types ('structs')."""
    global NOEXC, MEMPREFIX
    MEMPREFIX = memprefix
    cx = parse_module(text)
    NOEXC = 'landingpad' not in text
    names = list(cx.funcs) + list(cx.decls)
    dem = subprocess.run(['c++filt'], input='\n'.join(names), capture_output=True, text=True).stdout.split('\n')
    demap = dict(zip(names, dem))
    out_fns = []
    for n, f in cx.funcs.items():
        try:
            translate_function(cx, f, out_fns, {})
        except Exception as e:
            raise RuntimeError('ll2c: cannot translate %s: %s' % (demap[n], e))
    hdr = ['#include <stdint.h>', '#include <stddef.h>', 'extern int cntgs_exc;',
           'void *vf_memcpy(void *, const void *, uint64_t); void *vf_memmove(void *, const void *, uint64_t); void *vf_memset(void *, int, uint64_t);', '']
    defs = []
    done = set()
    def emit_type(t):
        if t in done: return
        if t[0] == 'ptr':
            return
        if t[0] == 'struct':
            body = cx.structs[t[1]]
            done.add(t)
            if body[0] == 'opaque': return
            for ft in body[1]: emit_type(ft)
            fs = ' '.join('%s f%d;' % (ctype(cx, ft), k) for k, ft in enumerate(body[1])) or 'char empty_;'
            defs.append('struct S_%s { %s }%s;' % (mang(t[1]), fs, ' __attribute__((packed))' if body[2] else ''))
        elif t[0] == 'lit':
            done.add(t)
            for ft in t[1]: emit_type(ft)
            fs = ' '.join('%s f%d;' % (ctype(cx, ft), k) for k, ft in enumerate(t[1])) or 'char empty_;'
            defs.append('struct %s { %s }%s;' % (cx.lits[t], fs, ' __attribute__((packed))' if t[2] else ''))
        elif t[0] == 'arr':
            done.add(t)
            emit_type(t[2])
            defs.append('struct %s { %s a[%d]; };' % (cx.arrs[t], ctype(cx, t[2]), max(t[1], 1)))
    for n in cx.structs:
        hdr.append('struct S_%s;' % mang(n))
    for n in list(cx.structs):
        ctype(cx, ('struct', n))
        body = cx.structs[n]
        if body[0] != 'opaque':
            for ft in body[1]: ctype(cx, ft)
    for g in cx.globals.values(): ctype(cx, g[0])
    for t in list(cx.order): emit_type(t)
    for n in cx.structs: emit_type(('struct', n))
    for t in list(cx.order): emit_type(t)
    gl = []
    for n, g in cx.globals.items():
        gl.append('%s%s g_%s%s;' % ('const ' if g[2] else '', ctype(cx, g[0]), mang(n), (' = ' + g[1]) if g[1] is not None else ''))
    protos = []
    nm = {'funcs': {}, 'externs': {}, 'structs': {}, 'globals': {}}
    for n, f in cx.funcs.items():
        ps = ', '.join(ctype(cx, t) for t, _, _ in f.params) or 'void'
        protos.append('%s f_%s(%s); /* %s */' % (ctype(cx, f.ret), mang(n), ps, demap[n]))
        nm['funcs']['f_' + mang(n)] = demap[n]
    for n, d in cx.decls.items():
        if n.startswith('llvm.'): continue
        ps = ', '.join(ctype(cx, t) for t, _, _ in d[2]) or 'void'
        if d[3]: ps = (ps + ', ...') if d[2] else ''
        protos.append('%s f_%s(%s); /* extern %s */' % (ctype(cx, d[1]), mang(n), ps, demap[n]))
        nm['externs']['f_' + mang(n)] = demap[n]
    for n in cx.structs:
        nm['structs']['S_' + mang(n)] = n
    for n, g in cx.globals.items():
        nm['globals']['g_' + mang(n)] = n
    for t in list(cx.order): emit_type(t)
    for n in sorted(cx.bytestructs): defs.append('struct VF_B%d { uint8_t b[%d]; } __attribute__((packed));' % (n, n))
    return '\n'.join(hdr + defs + [''] + protos + [''] + gl + [''] + out_fns) + '\n', nm

def main():
    import argparse
    ap = argparse.ArgumentParser()
    ap.add_argument('ll'); ap.add_argument('-o', required=True); ap.add_argument('--names', required=True)
    a = ap.parse_args()
    try:
        c, nm = translate_text(open(a.ll).read())
    except Exception as e:
        sys.stderr.write('ll2c: %s\n' % e); sys.exit(2)
    open(a.o, 'w').write(c)
    json.dump(nm, open(a.names, 'w'), indent=0)

def strip_compound(e):
    # global initialisers must be constant expressions: "((T){...})" -> "{...}"
    return re.sub(r'\(\((?:struct |const )*[A-Za-z0-9_ ]+\*?\)(\{)', r'(\1', e) if e.startswith('((struct') else e

if __name__ == '__main__':
    main()
