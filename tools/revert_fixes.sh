#!/bin/bash
# regression of the repairs: for every "fixed:" line of known_findings.txt, reverse-apply that /repo commit in a scratch worktree
# (never in /repo) and run the check of the property it is recorded under: the violation must be reported again (exit 1).
wt=${MUT_WT:-/tmp/wtr}
[ -n "$SKIP_REVERTS" -o -e /tmp/skip_reverts ] && { echo "reverts skipped"; exit 0; }
cd /verif
[ -d $wt ] || git -C /repo worktree add -q --detach $wt HEAD || exit 3
grep '^fixed:' known_findings.txt | while read -r _ prop commit rest; do
  p=${prop#property=}
  ( cd $wt && git checkout -q --detach $(git -C /repo rev-parse HEAD) && git checkout -q -- . ) || exit 3
  if ! git -C /repo show $commit -- src | git -C $wt apply -R 2>/dev/null; then echo "== revert $commit ($p): does not reverse-apply on HEAD (later fix touches the same lines)"; continue; fi
  out=$(VERIF_REPO=$wt VERIF_EVIDENCE_DIR=/tmp/mut_evidence ./check $p --tier ${TIER:-quick} 2>&1); rc=$?
  echo "== revert $commit vs $p: exit=$rc"; echo "$out" | grep -E "VIOLATION|UNDECIDED|tier=" | cut -c1-220 | head -3
  git -C $wt checkout -q -- .
done
git -C /repo worktree remove --force $wt
