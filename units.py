"""Registry of proof units.  A unit = one real function under contract (enforced), the callees replaced by their
contracts, the harness that builds the pre-states, and the properties its obligations serve."""

import os, sys
sys.path.insert(0, os.path.join(os.path.dirname(os.path.abspath(__file__)), 'tools'))
import layout
import vec
import cmp as cmpu
import conv
import refops
import elem
import excv

AAP = 'cntgs::detail::AllocatorAwarePointer<.*>::'
AAP_UNITS = [
    # (name, harness, enforced function regex, properties)
    ('ctor_size', 'h_ctor_size', AAP + r'AllocatorAwarePointer\(unsigned long, vf::LedgerAlloc<.*> const&\)', ['C07', 'C08', 'C05']),
    ('ctor_ptr', 'h_ctor_ptr', AAP + r'AllocatorAwarePointer\(cntgs::detail::Aligned<8ul>\*, unsigned long, vf::LedgerAlloc<.*> const&\)', ['C16']),
    ('ctor_copy', 'h_ctor_copy', AAP + r'AllocatorAwarePointer\(cntgs::detail::AllocatorAwarePointer<.*> const&\)', ['C07', 'C08', 'C05', 'C09']),
    ('ctor_move', 'h_ctor_move', AAP + r'AllocatorAwarePointer\(cntgs::detail::AllocatorAwarePointer<.*>&&\)', ['C07', 'C08', 'C09', 'C16']),
    ('dtor', 'h_dtor', AAP + r'~AllocatorAwarePointer\(\)', ['C07']),
    ('copy_assign', 'h_copy_assign', AAP + r'operator=\(cntgs::detail::AllocatorAwarePointer<.*> const&\)', ['C07', 'C08', 'C05', 'C09', 'C16']),
    ('copy_assign_self', 'h_copy_assign_self', AAP + r'operator=\(cntgs::detail::AllocatorAwarePointer<.*> const&\)', ['C09']),
    ('move_assign', 'h_move_assign', AAP + r'operator=\(cntgs::detail::AllocatorAwarePointer<.*>&&\)', ['C07', 'C08', 'C09', 'C16']),
    ('move_assign_self', 'h_move_assign_self', AAP + r'operator=\(cntgs::detail::AllocatorAwarePointer<.*>&&\)', ['C09']),
    ('release', 'h_release', AAP + r'release\(\)', ['C07']),
    ('reset', 'h_reset', AAP + r'reset\(', ['C07', 'C08', 'C10', 'C16']),
    ('swap', 'h_swap', r'^void cntgs::detail::swap<vf::LedgerAlloc', ['C08', 'C09', 'C16']),
    ('swap_self', 'h_swap_self', r'^void cntgs::detail::swap<vf::LedgerAlloc', ['C09']),
]
QUICK_FLAGS = [0, 3, 5, 14]   # none; POCCA+POCMA; POCCA+POCS; all-but-POCCA incl. always_equal


TRUSTED_BASE = [
    'clang 14 front end: lowers the real headers to LLVM IR at -O0 without optimisation passes',
    'tools/ll2c.py: generic LLVM-IR-to-C translation (no per-function rules; drops only optimiser hints, see DESIGN 3.3)',
    'goto-cc C front end, goto-instrument dfcc contract instrumentation, CBMC symbolic execution, SAT back end (cadical/kissat/minisat2)',
    'contracts/prelude.c: model of the allocator hooks (ledger), memcpy/memmove/memset with run-time length, object-lifetime hooks',
    'libstdc++ 12 headers as compiled into the IR (translated and verified together with cntgs code, not assumed)',
]
ASSUMPTIONS = [
    'template parameters are enumerated (configuration catalogue), run-time inputs are universally quantified',
    'x86-64 LP64 data layout; clang and g++ agree on the layout of the instantiated classes',
    'request sizes are bounded by 2^32 bytes in preconditions (machine arithmetic: no wrap-around of size computations)',
    'ledger model: at most 8 simultaneously live allocator blocks per proof unit (asserted, never assumed silently)',
    'block bases are object start + align*k with k in [0,9]: writes below a block base by less than align*k bytes are not detected',
    'the induction over operation histories (every public operation preserves the representation invariant) is a meta-argument over the discharged contracts',
    'vector-level comparison units (vec.*.equal, not_equal, less, op_*) assume the exact tiling TIGHT of a varying vector (each element starts at the lowest storage-aligned address after its predecessor, data_end() is the end of the last element): established by emplace_back, preservation by the other mutators is not proved in this closed form',
]
VEC_NOTE = ' Vector-level units (vec.*) fix the capacity and block size of the pre-state to enumerated constants (CBMC 6.11 needs minutes and tens of GB for objects of symbolic size that are read and written byte-wise, seconds for constant-size ones); size(), contents, offsets, counts, allocator ids stay symbolic. They are reported as bounded stand-ins and not counted as proved.'
PROPERTY_META = {
    'C20': dict(claimed=False, na_reason='Well-formedness of a template instantiation (does every documented operation compile for every kind of parameter list) is decided by the C++ type checker at instantiation time: there is no function body to put under contract and no pre/postcondition that can say that an overload resolves or a static_assert holds, so contract-based deductive verification of the code has nothing to attach to. The instantiation TUs of this framework do compile a matrix of lists x operations as a by-product (that is how defect D9 was found), but that is the compiler deciding, not a contract; see DESIGN.md section 10.'),
    'C01': dict(claimed=True, level='proof',
                text='Contracts on the real vector operations (constructor, emplace_back, pop_back, erase, clear, reserve, operator[], size/empty/capacity) state the sequence model on the representation: new size, which table entry/stride each element has, that untouched elements keep address and bytes, that shifted elements keep their bytes (witness byte), that the representation invariant WF_VAR/WF_FIXED is preserved; emplace_at is proved (unbounded) to store every argument at its layout position (store/load round trip at a witness byte).',
                note='Layout/store level is a proof for enumerated parameter lists.' + VEC_NOTE + ' std::transform over the address table is verified with a bounded unwinding (<= 6 entries) and used by contract in erase. Also counted here: the conversion contracts (conv.*: the stored item equals the stored type constructed from the source item, bounded to 4 items) and, for lists of non-trivial value types, the erase clause that relocated objects are move-constructed rather than byte-copied. Other aspects of non-trivial value types: see C06.',
                design_ref='DESIGN.md 6 C01'),
    'C09': dict(claimed=True, level='proof',
                text='AllocatorAwarePointer copy/move/swap contracts (unbounded, 16 trait combinations) give independence of storage and exact transfer of ownership; vector-level swap and move construction are verified against contracts that say the complete representation (capacity, block, table/stride, size, fixed sizes) is exchanged resp. transferred and the moved-from vector owns nothing.',
                note='Also under contract: vector copy construction, copy assignment and move assignment with the target smaller and larger than the source; self copy/move assignment, self swap and the use of a moved-from vector (clear, swap, assign to, destroy) are checked by assertions on the real functions.' + VEC_NOTE, design_ref='DESIGN.md 6 C09'),
    'C10': dict(claimed=True, level='proof',
                text='The contract of the real reserve(n, b) says: n <= capacity() changes nothing and requests nothing; otherwise capacity()==n, size(), fixed sizes, allocator, stored bytes (witness byte) and element offsets (witness element) are unchanged, the new block is owned, aligned and at least as large as the budget calculate_element_size gives for n elements and b bytes, which is proved (unbounded) to bound every element extent.',
                note='calculate_element_size budget lemma: proof per enumerated parameter list.' + VEC_NOTE, design_ref='DESIGN.md 6 C10'),
    'C16': dict(claimed=True, level='proof',
                text='Every contract of emplace_back, pop_back, clear, erase, reserve (not exceeding capacity), swap and move construction includes: allocator call counters unchanged, block pointer and capacity unchanged (resp. exchanged), and an assigns clause that excludes everything in front of the modified position; AllocatorAwarePointer swap/move/release/reset are proved (unbounded) not to allocate.',
                note='AllocatorAwarePointer level is a proof.' + VEC_NOTE, design_ref='DESIGN.md 6 C16'),
    'C19': dict(claimed=True, level='other',
                text='No schedule is explored. What is decided is the sequential fact the property rests on: every const operation under contract (size, empty, capacity, memory_consumption, data_begin, data_end, operator[], load_element_at, reference construction and accessors, copy construction from a vector) is checked by CBMC against an assigns clause that contains no pre-existing memory (only the result object and, for copying, freshly allocated blocks and the allocator model), so concurrent const calls perform no writes to shared state and cannot race; copies share no block with their source (postcondition of copy construction).',
                note='Frame conditions only: interleavings, the C++ memory model, thread-safety of the user allocator and value types are assumptions. Const comparison operators and element construction from references are covered where their units exist (see evidence).',
                explanation='Proof of empty write frames (dfcc assigns-clause checking of every store executed by a const operation), not an exploration of interleavings.',
                assumptions=['data-race freedom follows from write-freedom only under the C++ memory model for plain loads', 'the allocator and value types used by copy construction are themselves thread-safe'],
                design_ref='DESIGN.md 6 C19'),
    'C12': dict(claimed=True, level='model_checking',
                text='Contracts on the real BasicContiguousElement members (construction from a const and from an rvalue mutable reference, copy/move construction, destruction, copy/move assignment between elements of different varying sizes and allocators, swap) over the representation invariant WF_E: the element owns exactly one live block from an allocator equal to its own, the block holds the element, reference_ denotes the element at the start of the block; field values equal the source (witness byte; non-trivial items are copy- resp. move-constructed exactly once through the value type); the source element/vector memory is outside the assigns clause.',
                note='Bounded: span items <= 2, blocks <= 16 storage units, loops unwound; allocator trait combinations enumerated. element = reference and reference = element are covered at the reference level (C11). Move assignment into a moved-from element is a separate unit; known finding D17 covers the inputs for which the source fits the stale size() of the target, the complementary inputs (unit *.grows) have to hold.',
                design_ref='DESIGN.md 6 C12'),
    'C13': dict(claimed=True, level='model_checking',
                text='The real ElementTraits::equal and the reference operators == / != are verified against a contract that says: result == (same span sizes AND every field value equal), with every byte of both elements (alignment padding included) nondeterministic, for lists on the memcmp path and on the element-wise path; reflexivity and symmetry are checked on the real functions. Span lengths are bounded (<= 3 items) because the comparison loops are unwound. The real vector operator== / != are under the same kind of contract (result == same number of elements AND same fixed sizes AND every field value equal, all other bytes of both blocks nondeterministic) for lists on the whole-buffer path and on the element-wise path, with capacity <= 3 and blocks of 16-32 bytes.',
                note='Bounded: span items <= 3 per side, loops (memcmp model, std::equal) unwound 32 times with unwinding assertions; floating-point values exclude NaN. Vector-level units additionally fix capacity (<= 3) and block size (16-32 bytes) and assume the exact tiling of varying vectors (DESIGN 4.3 TIGHT).',
                design_ref='DESIGN.md 6 C13'),
    'C14': dict(claimed=True, level='model_checking',
                text='Contracts on the real reference operators >, <=, >= state them in terms of the real operator< (a > b == b < a, a <= b == !(b < a), a >= b == !(a < b)); irreflexivity, asymmetry and a < b => a != b are checked on the real operator< / operator== for symbolic element contents including padding. The same laws are checked on the real vector operators, and the real vector operator< of byte lists is verified against the lexicographical comparison of the element sequences written over sizes and field values only.',
                note='Bounded as C13. Transitivity of < is checked as a law on the real reference operator with three symbolic operands, not at vector level; vector operator< has an exact specification only for lists of single-byte unsigned plain fields (other lists: laws only).',
                design_ref='DESIGN.md 6 C14'),
    'C15': dict(claimed=True, level='model_checking',
                text='The real cntgs::detail::uninitialized_construct (the single funnel of every FixedSize/VaryingSize store) is verified per stored type x source value type x source form (pointer, std::array lvalue and rvalue, C array, non-contiguous generated iterator, aliasing-safe path) against: stored item k == StoredType(source item k) evaluated in C on the scalar types for an arbitrary witness k, returned end == target + n items, and an assigns clause that contains only the target items (sources unmodified). emplace_at is proved (unbounded) to pass its arguments to these stores at the right addresses.',
                note='Bounded: at most 4 items per span (copy loops unwound with unwinding assertions); the memcpy branch is covered by the copy model that is exact at the witness item. For the non-trivial vf::Tracked the FixedSize store is verified to copy-construct every item of an lvalue std::array exactly once without moving from it, and to move from every item of an rvalue array exactly once. A std::reverse_iterator over a pointer is under the same contract for uint32_t (known finding D22: the pinned tree takes it for contiguous and memcpys forward). A class type with a converting constructor from the source type (vf::Wrap <- uint32_t) is under the same contract for all six source forms (known finding D23: the pointer and std::array forms memcpy the source bytes). A std::move_iterator<Tracked*> source is verified to be moved from exactly once per item (conv.tracked.move_iterator). std::list and std::deque iterators are not under contract; conversions that are undefined in C++ (float out of range) are excluded by precondition.',
                design_ref='DESIGN.md 6 C15'),
    'C11': dict(claimed=True, level='model_checking',
                text='operator[] and iterator dereference (both const overloads) are verified to build a reference whose pointers are exactly the stored objects of the indexed element (so every access path denotes the same objects); iterator.data() is the element start; reference = reference is verified per list (trivial fields coalesced into memmove runs, vf::Tracked fields through the value type) against: trivial fields hold the source bytes (witness address), every non-trivial item is copy- resp. move-assigned exactly once from the item at the same place, an lvalue source is not moved from and not written; swap exchanges trivial bytes and swaps non-trivial items through their move operations.',
                note='Iterator +, -, ++, ==, <, <=, >, >= are proved (unbounded) to be index arithmetic on iterators of one vector. Bounded: span items <= 2, loops unwound in the reference-assignment units. The permuting std algorithms (rotate, reverse, swap_ranges) are not under contract: given faithful references and random-access iterators their behaviour is libstdc++ own specification (trusted).' + VEC_NOTE,
                design_ref='DESIGN.md 6 C11'),
    'C06': dict(claimed=True, level='model_checking',
                text='A ghost lifetime model of the non-trivial value type vf::Tracked (every special member reports to a hook; one arbitrary watched address) asserts inside every function under contract: no construction over an alive object, no read/assign/destroy of a dead object, no byte copy over an alive object; reference assignment, swap and ElementTraits::destruct are verified to construct nothing, destroy exactly the items of the element once, and assign each item through its own operator.',
                note='NOT COVERED: vectors with a VaryingSize parameter of a non-trivial type (overlapping element-wise relocation on erase); the pinned tree has a genuine defect there (D6 in DESIGN.md 1, reproduced by replay/native/d6.cpp) that no unit reaches. Bounded: span items <= 2. Vector-level units with non-trivial types (vec.f4t, vec.f4m, vec.c4_f4t): pop_back, clear, erase, destructor, emplace_back, operator[], copy/move assignment; for the single-field lists also move construction and swap (no object is touched), and for FixedSize<Tracked> reserve beyond capacity (relocation: nothing is constructed over an alive object, no byte copy overwrites one, no object of the returned block stays alive). Copy construction and move assignment of FixedSize<Tracked> vectors are additionally verified with the watched object in the source operand (vec.f4t.F0.*.src_watch.*): a copy leaves the source objects alive and not moved from and copy-constructs every held item exactly once; an element-wise move leaves the source objects alive as long as the source holds them. The same copy-construction contract is discharged for FixedSize<vf::TrackedC> (trivial move constructor and destructor, user-provided copy constructor: the copy path has to test copy-triviality).',
                design_ref='DESIGN.md 6 C06'),
    'C17': dict(claimed=True, level='model_checking',
                text='The exception-enabled IR of the real code is verified with an allocation hook that fails nondeterministically at every call (which covers failing the k-th allocation for every k): contracts of AllocatorAwarePointer construction/copy construction/copy assignment (unbounded, proof) and of vector construction, reserve, copy construction, copy assignment and move assignment between unequal allocators state for the exceptional exit: nothing leaked (live-block counter), no double free (ledger assertions), the source completely unchanged, the target still valid (owns its blocks, reported capacity fits its block); reaching std::terminate is an assertion failure.',
                note='Exceptions are modelled by one pending flag (invoke/landingpad/resume lowered by the translator, calls to nounwind functions never propagate). Vector-level units are bounded in capacity/block size. Of the ContiguousElement operations only move assignment between unequal allocators (varying list of vf::Tracked: the stored objects of the target stay alive when the allocation fails) is covered on the failure path.',
                design_ref='DESIGN.md 6 C17'),
    'C18': dict(claimed=True, level='model_checking',
                text='The pre-states of all vector-level contracts include never-filled vectors (address table content arbitrary), emptied vectors and capacity 0; size/empty/data_begin/data_end/clear/erase/reserve/swap/constructor contracts are discharged on them with all pointer checks on, so no result depends on an uninitialised table slot.',
                note='Default-constructed vectors are exercised through the real default constructor followed by the real observers, clear, reserve and destructor (assertions on the real functions).' + VEC_NOTE, design_ref='DESIGN.md 6 C18'),
    'C02': dict(claimed=True, level='proof',
                text='Per parameter list of the catalogue: the real emplace_at is proved to write only inside the oracle layout of the element (assigns frame per field, memcpy bounds), the real calculate_element_size is proved to bound every element extent and every next-element start for all varying counts (the two per-element facts from which the N-element/B-byte budget follows by induction), and all pointer/bounds checks of the functions under contract are discharged.',
                note='Parameter lists are enumerated (catalogue), counts/sizes/addresses are universal up to 65536 items per span. The sum over N elements is an induction written in DESIGN.md, not a CBMC obligation.',
                design_ref='DESIGN.md 6 C02'),
    'C03': dict(claimed=True, level='proof',
                text='Every assume_aligned/__builtin_assume_aligned of the real code is turned into an assertion and discharged inside emplace_at, load_element_at, align_for_first_parameter and the reference accessors, for every SA-aligned element start (block bases aligned to exactly SA) and all counts; field addresses are proved equal to an oracle whose fields are aligned by construction.',
                note='Enumerated parameter lists; vector-level preservation of SA-aligned element starts is covered by the locator/vector units listed in the evidence.',
                design_ref='DESIGN.md 6 C03'),
    'C04': dict(claimed=True, level='proof',
                text='load_element_at and the reference constructor/data_begin/data_end of the real code are proved to return exactly the in-order, non-overlapping oracle layout with span counts equal to the fixed size / the stored count; emplace_at is proved to write each object inside its oracle range.',
                note='Enumerated parameter lists; all run-time inputs universal.', design_ref='DESIGN.md 6 C04'),
    'C05': dict(claimed=True, level='proof',
                text='Field placement of the real store/load code equals the greedy tight layout (lowest aligned address after the previous field; next element at the lowest SA-aligned address); for lists without VaryingSize calculate_element_size is proved to be exactly the tight size and stride; allocation requests of AllocatorAwarePointer are proved to be exactly the source/new size.',
                note='Enumerated parameter lists and allocator trait combinations.', design_ref='DESIGN.md 6 C05'),
    'C07': dict(claimed=True, level='proof',
                text='Every owning operation of the real AllocatorAwarePointer (the only place where vector/element storage is allocated and freed) is proved against a contract over a ghost ledger: one allocation per constructor, deallocation exactly once, with the recorded size, through an allocator equal to the allocating one, for all sizes, ids and all 16 allocator trait combinations.',
                note='Proved per function for the enumerated allocator trait combinations; trusted: clang lowering, ll2c translation, CBMC, the ledger model in contracts/prelude.c. Vector/element level ownership (address table) see level text and DESIGN.',
                design_ref='DESIGN.md 6 C07'),
    'C08': dict(claimed=True, level='proof',
                text='Contracts on the real AllocatorAwarePointer copy/move construction, copy/move assignment and swap state the allocator_traits propagation table as postconditions (id after the operation) together with the ownership invariant (owned block was allocated by an equal allocator); discharged for all ids and all 16 trait combinations.',
                note='Same trusted base as C07; vector/element wrappers are covered where listed in the evidence.',
                design_ref='DESIGN.md 6 C08'),
}


def units(tier, seed=0):
    us = []
    flags = range(16) if tier == 'thorough' else QUICK_FLAGS
    for f in flags:
        for name, h, fn, props in AAP_UNITS:
            us.append(dict(id='aap.F%d.%s' % (f, name), tu='aap', defines=('VF_F=%d' % f,), template='aap.tpl.c', vars={'F': f},
                           entry=h, enforce='@F{%s}' % fn, replace=[], props=props, layer='allocator.hpp', kind='proof'))
    # C17: allocation failure (exception-enabled IR, the allocation hook fails nondeterministically at every call)
    aap_tpl = open(os.path.join(os.path.dirname(os.path.abspath(__file__)), 'contracts', 'aap.tpl.c')).read()
    AAP_EXC = {
        'F_CTOR_SIZE': ['__CPROVER_ensures(cntgs_exc == 0 || (g_live_blocks == __CPROVER_old(g_live_blocks) && g_alloc_calls == __CPROVER_old(g_alloc_calls))) /* C17: a failed allocation leaves nothing allocated */'],
        'F_CTOR_COPY': ['__CPROVER_ensures(cntgs_exc == 0 || (g_live_blocks == __CPROVER_old(g_live_blocks) && g_alloc_calls == __CPROVER_old(g_alloc_calls))) /* C17: a failed allocation leaves nothing allocated and the source unchanged */'],
        'F_COPY_ASSIGN': ['__CPROVER_ensures(cntgs_exc == 0 || (WF(self) && g_live_blocks == __CPROVER_old(g_live_blocks) - ((PTR(self) == 0 && __CPROVER_old(PTR(self)) != 0) ? 1 : 0))) /* C17: after a failed allocation the target is still valid (owns a live block or none: destructible, no double free) and nothing is leaked */'],
    }
    for f in ([0, 1, 3] if tier != 'thorough' else range(16)):
        txt = excv.exc_variant(aap_tpl, AAP_EXC)
        for name, h, fn, props in AAP_UNITS:
            if name not in ('ctor_size', 'ctor_copy', 'copy_assign'):
                continue
            us.append(dict(id='exc.aap.F%d.%s' % (f, name), tu='aap', defines=('VF_F=%d' % f,), exceptions=True, template_text=txt, vars={'F': f},
                           entry=h, enforce='@F{%s}' % fn, replace=[], props=['C17'], layer='allocator.hpp', kind='proof', cdefs=['VF_ALLOC_MAY_FAIL=1'],
                           config='allocation failure: AllocatorAwarePointer, allocator traits F=%d' % f))
    us += exc_vec_units(tier)
    fixed_lists = set(layout.SUITE_LISTS) | set(layout.HINT_LISTS)
    for spec in layout.catalogue(tier, seed):
        if spec not in fixed_lists and len(spec.split()) > 4:
            continue   # random lists of five parameters: emplace_at can exceed the 900 s budget (measured with VERIF_SEED=2: two lists undecided)
        L = layout.Layout(spec)
        txt = layout.c_unit(L)
        cxx = L.cxx_tu()
        for name, h, key, props in layout.LAYOUT_UNITS:
            us.append(dict(id='lay.%s.%s' % (L.tag, name), tu='lay_' + L.tag, gen=cxx, template_text=txt, vars={}, entry=h,
                           enforce='@F{%s}' % layout.RX[key], replace=[], props=props, layer='elementTraits.hpp/parameterTraits.hpp',
                           kind='proof', config='layout: ' + spec, replay='layout'))
    for T, U in conv.PAIRS[tier]:
        if (T, U) == ('e32', 'u32'): continue   # no implicit conversion from an integer to an enumeration: the element-wise source forms are ill-formed for the user, not a library matter
        cxx = conv.cxx_tu(T, U)
        for form in conv.FORMS:
            loops = form in ('generator',) or not _memcpy_compatible(T, U) or form == 'ptr_aliased'
            us.append(dict(id='conv.%s_from_%s.%s' % (T, U, form), tu='conv_%s_%s' % (T, U), gen=cxx, template_text=conv.c_unit(T, U, form), vars={},
                           entry='h_uc', enforce='@F{%s}' % conv.FORMS[form][0], replace=[], props=['C15', 'C01'], layer='memory.hpp/typeTraits.hpp',
                           kind='bounded(items <= 4, copy loop unwound)', unwind=6, cdefs=['VF_WINDOWS=1'], config='conversion: %s <- %s, %s' % (T, U, form), replay='convert'))
    # C15, defect D22: random-access iterators that are not contiguous (std::reverse_iterator over a pointer) as the source of a store
    us.append(dict(id='conv.u32_from_u32.reverse_iterator', tu='conv_rev_u32', gen=REV_CXX, template_text=REV_UNIT, vars={}, entry='h_uc', enforce='@F{%s}' % REV_RX, replace=[],
                   props=['C15'], layer='memory.hpp/iterator.hpp', kind='bounded(items <= 4, copy loop unwound)', unwind=6, cdefs=['VF_WINDOWS=1'],
                   config='conversion: u32 <- u32, std::reverse_iterator<const uint32_t*>'))
    # C15: a class type with a converting constructor as the stored type (source uint32_t): T(x) flips the top bit, so a byte copy is visible
    wcxx = conv.cxx_tu('u32', 'u32').replace('using T = std::uint32_t;', WRAP_CXX + 'using T = vf::Wrap;', 1)
    assert 'vf::Wrap' in wcxx
    for form in conv.FORMS:
        wtxt = conv.c_unit('u32', 'u32', form)
        assert wtxt.count('== ((uint32_t)(g_srck))') == 1
        wtxt = wtxt.replace('== ((uint32_t)(g_srck))', '== (((uint32_t)(g_srck)) ^ 0x80000000u)').replace('stored u32, source u32', 'stored vf::Wrap (class with a converting constructor from uint32_t), source u32')
        us.append(dict(id='conv.wrap_from_u32.%s' % form, tu='conv_wrap_u32', gen=wcxx, template_text=wtxt, vars={}, entry='h_uc', enforce='@F{%s}' % conv.FORMS[form][0], replace=[],
                       props=['C15', 'C01'], layer='memory.hpp/typeTraits.hpp', kind='bounded(items <= 4, copy loop unwound)', unwind=6, cdefs=['VF_WINDOWS=1'],
                       config='conversion: vf::Wrap (converting constructor) <- u32, %s' % form))
    # C15: a std::move_iterator source is moved from exactly once per item, n items are consumed
    us.append(dict(id='conv.tracked.move_iterator', tu='conv_tracked_mvit', gen=MVIT_CXX, template_text=MVIT_UNIT, vars={}, entry='h_uc', enforce='@F{%s}' % MVIT_RX, replace=[],
                   props=['C15', 'C06'], layer='memory.hpp', kind='bounded(items <= 4, copy loop unwound)', unwind=6, cdefs=['VF_TRACKED=1'],
                   config='conversion: Tracked <- std::move_iterator<Tracked*>'))
    for spec, flags in elem.ELEM_CATALOGUE[tier]:
        for f in flags:
            txt, L = elem.c_unit(spec, f)
            cxx = elem.cxx_tu(spec, f)
            tracked = any(q.elem in 'tm' for q in L.params)
            ulist = elem.ELEM_UNITS + (elem.ELEM_CMP_UNITS if all(q.elem in 'ux' for q in L.params) else [])
            for name, h, key, props in ulist:
                if 'elem.%s.F%d.%s' % (L.tag, f, name) in OVER_BUDGET: continue
                if name.endswith('.grows') and not L.is_varying(): continue   # lists without VaryingSize take another branch of move_assign
                us.append(dict(id='elem.%s.F%d.%s' % (L.tag, f, name), tu='elem_%s_F%d' % (L.tag, f), gen=cxx, template_text=txt, vars={}, entry=h,
                               enforce='@F{%s}' % elem.RXE[key], replace=[], props=props, layer='element.hpp',
                               kind='bounded(span items <= 2, block <= 16 storage units, loops unwound)', unwind=24,
                               cdefs=['VF_BLOCK_K=1'] + (['VF_TRACKED=1'] if tracked else []), config='element: %s, allocator traits F=%d' % (spec, f)))
    for spec, f in [('c4 v4t', 0)]:
        txt, L = elem.c_unit(spec, f)
        txt = elem.exc_text(txt, L)
        us.append(dict(id='exc.elem.%s.F%d.move_assign' % (L.tag, f), tu='elem_%s_F%d' % (L.tag, f), gen=elem.cxx_tu(spec, f), exceptions=True, template_text=txt, vars={},
                       entry='h_e_move_assign_watch_target', enforce='@F{%s}' % elem.RXE['move_assign'], replace=[], props=['C17', 'C06'], layer='element.hpp',
                       kind='bounded(span items <= 2, block <= 16 storage units, loops unwound)', unwind=8,
                       cdefs=['VF_BLOCK_K=1', 'VF_TRACKED=1', 'VF_ALLOC_MAY_FAIL=1'], config='allocation failure: element %s, allocator traits F=%d' % (spec, f)))
    for spec in refops.REF_LISTS[tier] + EXTRA_REF_LISTS[tier]:
        txt, L = refops.c_unit(spec)
        cxx = refops.cxx_tu(spec)
        for name, h, key, props in refops.REF_UNITS:
            if name == 'swap' and len(L.params) > 2:
                continue   # byte-swap loops plus non-trivial swaps of three-field elements exceed the memory budget
            if 'ref.%s.%s' % (L.tag, name) in OVER_BUDGET: continue
            us.append(dict(id='ref.%s.%s' % (L.tag, name), tu='ref_' + L.tag, gen=cxx, template_text=txt, vars={}, entry=h,
                           enforce='@F{%s}' % refops.RXR[key], replace=[], props=props, layer='reference.hpp/elementTraits.hpp',
                           kind='bounded(span items <= 2, loops unwound)', unwind=(24 if spec in EXTRA_REF_LISTS['thorough'] else 20), cdefs=['VF_TRACKED=1'], config='reference operations: ' + spec))   # byte loops of the 20-byte runs need 21 iterations
    for form in ('store_lvalue', 'store_rvalue'):
        us.append(dict(id='conv.tracked.%s' % form, tu='conv_tracked', gen=conv.cxx_tu_tracked(), template_text=conv.c_unit_tracked(form), vars={}, entry='h_store',
                       enforce='@F{%s}' % conv.STORE_RX[form], replace=[], props=['C15', 'C06'], layer='parameterTraits.hpp/memory.hpp',
                       kind='bounded(4 items, copy loop unwound)', unwind=6, cdefs=['VF_TRACKED=1'], config='conversion: FixedSize<Tracked> store, %s' % form))
    for spec in cmpu.CMP_LISTS[tier]:
        txt, L = cmpu.c_unit(spec)
        cxx = cmpu.cxx_tu(spec)
        allbytes = all(q.kind in 'pc' and q.elem == 'u' and q.size == 1 for q in L.params)
        for name, h, key, props in cmpu.CMP_UNITS + (cmpu.CMP_UNITS_BYTES if allbytes else []):
            us.append(dict(id='cmp.%s.%s' % (L.tag, name), tu='cmp_' + L.tag, gen=cxx, template_text=txt, vars={}, entry=h,
                           enforce=('@F{%s}' % cmpu.RXC[key]) if key else None, replace=[], props=props, layer='elementTraits.hpp/reference.hpp',
                           kind='bounded(span items <= 3, loops unwound 32 times)', unwind=32, config='comparison: ' + spec,
                           expect_classes=['postcondition'] if key else ['assertion']))
    for spec, flags in vec_catalogue(tier):
        for f in flags:
            txt, L = vec.c_unit(spec, f)
            cxx = vec.cxx_tu(spec, f)
            tracked = any(q.elem in 'tm' for q in L.params)
            if tracked:
                txt, L = vec.c_unit(spec, f, maxc=2)
            if all(q.elem in 'ux' for q in L.params):
                txt, L = vec.c_unit(spec, f, maxc=3)   # the comparison oracle enumerates the span items
            src_watch = [('move_assign.src_watch', 'h_move_assign_src', 'move_assign', ['C06', 'C09'], [], {'cdefs': ['VF_WINDOWS=1'], 'two': True, 'srcwatch': True})] if spec == 'f4t' else []
            if spec == 'f4t':
                src_watch.append(('copy_assign.src_watch', 'h_copy_assign_src', 'copy_assign', ['C06', 'C09'], [], {'cdefs': ['VF_WINDOWS=1'], 'two': True, 'srcwatch': 'copy_assign'}))
                src_watch.append(('copy_ctor.src_watch', 'h_copy_ctor_src', 'copy_ctor', ['C06', 'C09'], [], {'cdefs': ['VF_WINDOWS=1'], 'srcwatch': 'copy_ctor'}))
            for name, h, key, props, repl, extra in vec.VEC_UNITS_COMMON + (vec.VEC_UNITS_VAR if L.is_varying() else vec.VEC_UNITS_FIXED) + src_watch:
                if tracked:
                    if name not in ('pop_back', 'clear', 'erase', 'dtor', 'emplace_back', 'subscript', 'copy_assign', 'move_assign', 'move_assign.src_watch', 'copy_ctor.src_watch', 'copy_assign.src_watch', 'moved_from') + (TRACKED_RELOC if len(L.params) == 1 else ()):
                        continue
                    if name in ('copy_assign', 'move_assign') and len(L.params) > 1:
                        continue   # exceeds the memory budget for mixed lists
                    if name == 'reserve' and all(q.elem != 't' for q in L.params):
                        continue   # the relocation clause of the reserve contract (no object alive in the returned block) is written for types with a destructor call; trivially destructible objects end their life without one
                    props = sorted(set(props + ['C06']))
                    repl = [r for r in repl if r not in ('EMPLACE',)]
                    extra = dict(extra); extra['unwind'] = 4; extra['kind'] = 'bounded(capacity 2, span items <= 2, loops unwound)'
                    if name == 'reserve': extra['unwind'] = 3   # capacity 2 and two items per span: every loop runs at most twice (unwinding assertions on); 4 exceeds the 10 GB budget
                u = dict(id='vec.%s.F%d.%s' % (L.tag, f, name), tu='vec_%s_F%d' % (L.tag, f), gen=cxx, template_text=txt, vars={}, entry=h,
                         enforce=('@F{%s}' % vec.RXV[key]) if key else None, replace=['@F{%s}' % vec.REPL[r] for r in repl], props=props, layer='vector.hpp/elementLocator.hpp',
                         kind=extra.get('kind', 'proof'), config='vector: %s, allocator traits F=%d' % (spec, f), replay='history')
                if extra.get('srcwatch'): u['template_text'] = copy_ctor_src_watch_text(txt) if extra['srcwatch'] == 'copy_ctor' else copy_assign_src_watch_text(txt) if extra['srcwatch'] == 'copy_assign' else src_watch_text(txt)
                if extra.get('intonly') and not all(q.elem in 'ux' for q in L.params): continue
                if name == 'default_constructed' and L.nfixed and L.nvar: continue   # `V v;` leaves the fixed sizes of a mixed list indeterminate; reserve reads them: outside the contract of the library (false alarm corrected, DESIGN 14)
                if extra.get('bytesonly') and not all(q.kind in 'pc' and q.elem == 'u' and q.size == 1 for q in L.params): continue
                if extra.get('intonly') and extra.get('lt'):
                    eq_b = all(q.elem == 'u' for q in L.params); lt_b = all(q.elem == 'u' and q.size == 1 for q in L.params) and not L.is_varying()
                    if extra.get('eq') and eq_b != lt_b: continue     # whole-buffer == next to element-wise <: no common unwinding bound within the memory budget
                    if tier != 'thorough' and not lt_b and spec != 'f4x': continue   # element-wise < (about 100 s per unit): one list in the quick tier
                    if spec == 'c1 c4a4': continue   # element-wise < of <uint8_t, AlignAs<uint32_t,4>>: the solver exceeds the memory budget (measured: 11 of 19 units killed)
                if all(q.elem in 'ux' for q in L.params) and not extra.get('intonly'): continue   # integer lists exist for the comparison units only
                if extra.get('tier') == 'thorough' and tier != 'thorough': continue
                if extra.get('timeout'): u['timeout'] = extra['timeout']
                if extra.get('law'): u['expect_classes'] = ['assertion']
                if extra.get('unwind'): u['unwind'] = extra['unwind']
                if extra.get('intonly'):
                    # whole-buffer paths loop once per byte of the (<= 32 byte) block, the element-wise paths over <= 2 elements and <= 3 items
                    eq_bytes = all(q.elem == 'u' for q in L.params)
                    lt_bytes = all(q.elem == 'u' and q.size == 1 for q in L.params) and not L.is_varying()
                    uses_eq = not extra.get('lt') or extra.get('eq')
                    u['unwind'] = 36 if ((uses_eq and eq_bytes) or (extra.get('lt') and lt_bytes)) else 6
                u['cdefs'] = ['VF_BLOCK_K=1'] + (['VF_TRACKED=1'] if tracked else []) + (['VF_TRIVIAL_DTOR=1'] if tracked and all(q.elem != 't' for q in L.params) else [])
                if extra.get('cdefs_nvar'): u['cdefs'].append('VF_WINDOWS=%d' % min(4, 2 * L.nvar))
                u['cdefs'] += extra.get('cdefs', [])
                if key == 'transform' or extra.get('noshape'):
                    if extra.get('noshape'): u['kind'] = 'proof'
                    us.append(u)
                    continue
                shapes = [(c, b, c, b) for c, b in VEC_SHAPES[tier]] if not tracked else [(2, 48, 2, 48)]
                if extra.get('two'):
                    shapes = VEC_SHAPES2[tier] if not tracked else [(2, 48, 2, 48), (1, 16, 2, 48)]
                if extra.get('intonly'):
                    shapes = VEC_SHAPES_CMP[tier]
                if name == 'erase.wf_pair':
                    shapes = [sh for sh in shapes if sh[0] < 4]   # capacity 4 exceeds the 900 s budget
                if name == 'erase.wf_elem':
                    # the heaviest unit (up to an hour each): two lists, two shapes
                    if (spec, f) not in (('c4 v4', 0), ('c8a8 v2 p4a8', 3)): continue
                    shapes = [(1, 32, 1, 32), (3, 64, 3, 64)]
                for capk, unitsk, capo, unitso in shapes:
                    uu = dict(u); uu['id'] = u['id'] + '.cap%d' % capk + ('o%d' % capo if extra.get('two') else '')
                    if any(x['id'] == uu['id'] for x in us[-8:]): continue   # one-operand units: shapes that differ in the other operand only
                    uu['cdefs'] = u['cdefs'] + ['CAPK=%d' % capk, 'UNITSK=%d' % max(0, unitsk // L.sa), 'CAPK_O=%d' % capo, 'UNITSK_O=%d' % max(0, unitso // L.sa)]
                    if u['kind'] == 'proof':
                        uu['kind'] = 'bounded(capacity=%d, block=%d bytes; size, contents and offsets symbolic)' % (capk, max(0, unitsk // L.sa) * L.sa)
                    us.append(uu)
    # C06: a value type with a trivial move constructor and destructor but a user-provided copy constructor (added after seeded change C06-4 was missed:
    # the copy path must test copy-triviality, not move-triviality).  The type is defined in the TU itself (inst/support.hpp has no such type).
    base = [u for u in us if u['id'] == 'vec.f4t.F0.copy_ctor.src_watch.cap2']
    if base:
        txtm, Lm = vec.c_unit('f4m', 0, maxc=2)
        uc = dict(base[0]); uc['id'] = 'vec.f4c.F0.copy_ctor.src_watch.cap2'; uc['tu'] = 'vec_f4c_F0'
        uc['gen'] = vec.cxx_tu('f4m', 0).replace('vf::TrackedM', 'vf::TrackedC').replace('#include "support.hpp"\n', '#include "support.hpp"\n' + TRACKEDC, 1)
        uc['template_text'] = copy_ctor_src_watch_text(txtm).replace('TrackedM', 'TrackedC')
        uc['cdefs'] = list(uc['cdefs']) + ['VF_TRIVIAL_DTOR=1']
        uc['config'] = 'vector: FixedSize<TrackedC> (trivial move constructor and destructor, user-provided copy constructor), allocator traits F=0'
        us.append(uc)
    return us


TRACKEDC = '''namespace vf {
// trivial move constructor and destructor, user-provided copy constructor and copy assignment that report to the lifetime hooks
struct TrackedC
{
    unsigned v;
    TrackedC() = delete;
    explicit TrackedC(unsigned x) noexcept : v(x) { vf_obj_ctor(this, x); }
    TrackedC(const TrackedC& o) noexcept : v(o.v) { vf_obj_copy(this, &o); }
    TrackedC(TrackedC&&) = default;
    TrackedC& operator=(const TrackedC& o) noexcept
    {
        vf_obj_assign(this, &o);
        v = o.v;
        return *this;
    }
    TrackedC& operator=(TrackedC&&) = default;
    ~TrackedC() = default;
};
}  // namespace vf
'''


# (capacity, block bytes) of the target and of the source operand: target smaller and target larger than the source
VEC_SHAPES2 = {'quick': [(2, 32, 3, 64), (3, 64, 2, 32)], 'thorough': [(2, 32, 3, 64), (3, 64, 2, 32), (0, 0, 3, 64), (3, 64, 0, 0), (3, 64, 3, 64)]}
# comparison units: both operands small (the whole-buffer comparison loops run once per byte)
VEC_SHAPES_CMP = {'quick': [(2, 16, 2, 16)], 'thorough': [(2, 16, 2, 16), (3, 32, 2, 16), (0, 0, 2, 16), (2, 16, 0, 0)]}
VEC_SHAPES = {'quick': [(3, 64)], 'thorough': [(0, 0), (1, 32), (3, 64), (4, 96)]}


def _memcpy_compatible(T, U):
    return False


def exc_vec_units(tier):
    us = []
    for spec, f in ([('f4', 0), ('c4 v4', 0)] if tier != 'thorough' else [('f4', 0), ('c4 v4', 0), ('f2a4 p1', 1), ('c8a8 v2 p4a8', 4)]):
        txt, L = vec.c_unit(spec, f)
        txt = vec.exc_text(txt, L)
        cxx = vec.cxx_tu(spec, f)
        for name, h, key, two in (('ctor', 'h_vctor', 'ctor', False), ('reserve', 'h_reserve', 'reserve', False), ('copy_ctor', 'h_copy_ctor', 'copy_ctor', False),
                                  ('copy_assign', 'h_copy_assign', 'copy_assign', True), ('move_assign', 'h_move_assign', 'move_assign', True)):
            for capk, unitsk, capo, unitso in ([(2, 32, 3, 64), (3, 64, 2, 32)] if two else [(3, 64, 3, 64)]):
                us.append(dict(id='exc.vec.%s.F%d.%s.cap%do%d' % (L.tag, f, name, capk, capo), tu='vec_%s_F%d' % (L.tag, f), gen=cxx, exceptions=True, template_text=txt, vars={},
                               entry=h, enforce='@F{%s}' % vec.RXV[key], replace=[], props=['C17'], layer='vector.hpp',
                               kind='bounded(capacity=%d, block=%d bytes; size, contents and offsets symbolic)' % (capk, (unitsk // L.sa) * L.sa),
                               cdefs=['VF_BLOCK_K=1', 'VF_ALLOC_MAY_FAIL=1', 'VF_WINDOWS=1', 'CAPK=%d' % capk, 'UNITSK=%d' % (unitsk // L.sa), 'CAPK_O=%d' % capo, 'UNITSK_O=%d' % (unitso // L.sa)],
                               config='allocation failure: vector %s, allocator traits F=%d' % (spec, f)))
    return us


# reference lists with a coalesced trivial run of 16 bytes or more that is not a multiple of 16 (blocked copy/swap implementations have a tail there;
# the lists of tools/refops.py have runs of at most 12 bytes): added after seeded change C11-5 was missed
EXTRA_REF_LISTS = {'quick': ['p16 p4'], 'thorough': ['p16 p4', 'p8 p8 p4']}


WRAP_CXX = '''namespace vf {
// class type with a converting constructor: same size as the source type and trivially copyable, but T(x) != the bytes of x
struct Wrap
{
    std::uint32_t v;
    Wrap(std::uint32_t x) noexcept : v(x ^ 0x80000000u) {}
};
}  // namespace vf
'''
MVIT_RX = r'cntgs::detail::uninitialized_construct<true, vf::Tracked, std::move_iterator<'
MVIT_CXX = '''// units.py: stored type vf::Tracked, source std::move_iterator<vf::Tracked*>: forwarding call only
#include "support.hpp"
#include <cntgs/contiguous.hpp>
#include <iterator>
extern "C" {
std::byte* vfx_mvit(const std::move_iterator<vf::Tracked*>& it, vf::Tracked* a, std::size_t n) { return cntgs::detail::uninitialized_construct<true>(it, a, n); }
}
'''
MVIT_UNIT = '''/* units.py: uninitialized_construct of vf::Tracked items from a std::move_iterator<vf::Tracked*> */
#include <stdlib.h>
#include "prelude.h"
#include "{{TU_C}}"
#define MAXN 4ull
#define F_UC @F{%(rx)s}
typedef @T{%(rx)s|0} SRCp;
typedef @T{%(rx)s|1} TGTp;
uint64_t g_k; /* witness item index: the watched object is source item g_k */
uint8_t *F_UC(SRCp src, TGTp address, uint64_t n)
__CPROVER_requires(__CPROVER_r_ok(src, sizeof(*src)) && n <= MAXN && __CPROVER_rw_ok(src->f0, 4 * MAXN) && __CPROVER_w_ok(address, 4 * MAXN) && g_o == (uint8_t *)src->f0 + 4 * g_k && g_k < MAXN)
__CPROVER_ensures(__CPROVER_return_value == (uint8_t *)address + 4 * n) /* C15: exactly as many items are consumed and stored as the parameter holds */
__CPROVER_ensures(g_obj_move == __CPROVER_old(g_obj_move) + n && g_obj_copy == __CPROVER_old(g_obj_copy)) /* C15 C06: every item of a move_iterator source is move-constructed from exactly once, none is copied */
__CPROVER_ensures(g_o_alive && g_o_moved_from == (g_k < n ? 1 : 0)) /* C15: exactly the first n source items are moved from (witness item), all stay alive */
__CPROVER_assigns(__CPROVER_object_upto((uint8_t *)address, 4 * MAXN), __CPROVER_object_upto((uint8_t *)src->f0, 4 * MAXN), g_obj_live, g_obj_copy, g_obj_move, g_o_moved_from)
;
void h_uc(void)
{
    uint64_t n = nondet_u8(); __CPROVER_assume(n <= MAXN);
    uint8_t *s = malloc(4 * MAXN); SRCp src = malloc(sizeof(*src)); src->f0 = (void *)s; TGTp a = malloc(4 * MAXN);
    g_k = nondet_u8(); __CPROVER_assume(g_k < MAXN);
    g_o = s + 4 * g_k; g_o_alive = 1; g_o_moved_from = 0; g_o_how = 0; g_o_from = 0; g_o_asg = 0;
    g_obj_live = 64; g_obj_copy = nondet_u8(); g_obj_move = nondet_u8();
    F_UC(src, a, n);
}
''' % dict(rx=MVIT_RX)
REV_RX = r'cntgs::detail::uninitialized_construct<true, [^,]*, std::reverse_iterator<'
REV_CXX = '''// units.py: stored type uint32_t, source std::reverse_iterator<const uint32_t*>: forwarding call only
#include "support.hpp"
#include <cntgs/contiguous.hpp>
#include <iterator>
using T = std::uint32_t; using U = std::uint32_t;
extern "C" {
std::byte* vfx_rev(const std::reverse_iterator<const U*>& it, T* a, std::size_t n) { return cntgs::detail::uninitialized_construct<true>(it, a, n); }
}
'''
REV_UNIT = '''/* units.py: uninitialized_construct, stored u32, source u32, source form std::reverse_iterator<const uint32_t*> (item k is base[-1-k]) */
#include <stdlib.h>
#include "prelude.h"
#include "{{TU_C}}"
#define MAXN 4ull
#define F_UC @F{%(rx)s}
typedef @T{%(rx)s|0} SRCp;
typedef @T{%(rx)s|1} TGTp;
uint64_t g_k; /* witness item index */
uint32_t g_srck; /* the source item at the witness index before the call */
uint8_t *F_UC(SRCp src, TGTp address, uint64_t n)
__CPROVER_requires(__CPROVER_r_ok(src, sizeof(*src)) && n <= MAXN && __CPROVER_r_ok((uint32_t *)src->f0 - MAXN, 2 * MAXN * sizeof(uint32_t)) && (n == 0 || __CPROVER_w_ok(address, n * sizeof(uint32_t))))
__CPROVER_requires(g_k >= n || (g_srck == ((uint32_t *)src->f0)[-1 - (int64_t)g_k] && g_win[0] == g_k * sizeof(uint32_t)))
__CPROVER_ensures(__CPROVER_return_value == (uint8_t *)address + n * sizeof(uint32_t)) /* C15: exactly as many items are consumed and stored as the parameter holds */
__CPROVER_ensures(g_k >= n || ((uint32_t *)address)[g_k] == (uint32_t)g_srck) /* C15: the stored item equals the source item the iterator denotes at that position, also for random-access iterators that are not contiguous (witness item) */
__CPROVER_assigns(__CPROVER_object_upto((uint8_t *)address, n * sizeof(uint32_t))) /* C15: the source is left unmodified; only the target items are written */
;
void h_uc(void)
{
    uint64_t n = nondet_u8(); __CPROVER_assume(n <= MAXN); g_k = nondet_u8(); g_wit = nondet_u8(); g_win[0] = g_k * sizeof(uint32_t);
    uint32_t *s = malloc(2 * MAXN * sizeof(uint32_t)); SRCp src = malloc(sizeof(*src)); src->f0 = (void *)(s + MAXN);
    TGTp a = malloc(MAXN * sizeof(uint32_t));
    if (g_k < n) g_srck = s[MAXN - 1 - g_k];
    F_UC(src, a, n);
}
''' % dict(rx=REV_RX)


def copy_assign_src_watch_text(txt):
    """copy assignment of a Tracked vector with the watched object in the source operand: the source objects stay alive and are not moved from"""
    old_clause = '__CPROVER_ensures(MEM(v) != g_pre.mem ? (TRIVIAL_DTOR || !g_o_alive) : LIFE(v))'
    assert txt.count(old_clause) == 2 and txt.count('\nvoid h_copy_assign(void)\n') == 1 and txt.count('static Vp mkvec_o(void)') == 1
    txt = txt.replace(old_clause, '__CPROVER_ensures(g_o_src || (MEM(v) != g_pre.mem ? (TRIVIAL_DTOR || !g_o_alive) : LIFE(v)))')
    txt = txt.replace('static Vp mkvec_o(void)', 'static uint8_t g_o_src; /* 1: the watched object is a valid item of the source operand */\nstatic Vp mkvec_o(void)', 1)
    i = txt.index('\nvoid h_copy_assign(void)\n'); j = txt.index('\n}', i) + 2
    h = txt[i:j].replace('h_copy_assign(void)', 'h_copy_assign_src(void)')
    watch = (' g_ok = nondet_u8(); g_oj = nondet_u8(); __CPROVER_assume(g_ok < CAPK_O && g_oj < MAXC);'
             ' if (OVALID(o)) { g_o = OITEM(o); g_o_alive = g_ok < COUNT(o); g_o_src = 1; } else { g_o = malloc(4); g_o_alive = 0; g_o_src = 0; }'
             ' g_o_how = 0; g_o_from = 0; g_o_asg = 0; g_o_moved_from = 0;')
    assert 'Vp o = mkvec_o();' in h
    h = h.replace('Vp o = mkvec_o();', 'Vp o = mkvec_o();' + watch, 1)
    txt = txt[:j] + h + txt[j:]
    k = txt.index('\n__CPROVER_assigns(', txt.index('\nVp F_COPY_ASSIGN('))
    clause = '\n__CPROVER_ensures(!g_o_src || (g_o_alive == (g_ok < COUNT(o)) && !g_o_moved_from && MEM(o) == g_pre_o.mem)) /* C06 C09: copy assignment leaves the objects of the source alive, in place and not moved from */'
    return txt[:k] + clause + txt[k:]


def src_watch_text(txt):
    """variant of a Tracked vector unit whose watched object is an item of the SOURCE operand of move assignment (added after
    seeded change C06-5 was missed: the generated harness watches an object of the target only).  Done here on the generated
    text, so that the units generated by tools/vec.py keep their text (and their memoised results)."""
    old_clause = '__CPROVER_ensures(MEM(v) != g_pre.mem ? (TRIVIAL_DTOR || !g_o_alive) : LIFE(v))'
    assert txt.count(old_clause) == 2 and txt.count('\nvoid h_move_assign(void)\n') == 1 and txt.count('static Vp mkvec_o(void)') == 1
    txt = txt.replace(old_clause, '__CPROVER_ensures(g_o_src || (MEM(v) != g_pre.mem ? (TRIVIAL_DTOR || !g_o_alive) : LIFE(v)))')
    txt = txt.replace('static Vp mkvec_o(void)', 'static uint8_t g_o_src; /* 1: the watched object is a valid item of the source operand */\nstatic Vp mkvec_o(void)', 1)
    i = txt.index('\nvoid h_move_assign(void)\n'); j = txt.index('\n}', i) + 2
    h = txt[i:j].replace('h_move_assign(void)', 'h_move_assign_src(void)')
    watch = (' g_ok = nondet_u8(); g_oj = nondet_u8(); __CPROVER_assume(g_ok < CAPK_O && g_oj < MAXC);'
             ' if (OVALID(o)) { g_o = OITEM(o); g_o_alive = g_ok < COUNT(o); g_o_src = 1; } else { g_o = malloc(4); g_o_alive = 0; g_o_src = 0; }'
             ' g_o_how = 0; g_o_from = 0; g_o_asg = 0; g_o_moved_from = 0;')
    assert 'Vp o = mkvec_o();' in h
    h = h.replace('Vp o = mkvec_o();', 'Vp o = mkvec_o();' + watch, 1)
    txt = txt[:j] + h + txt[j:]
    k = txt.index('\n__CPROVER_assigns(', txt.index('\nVp F_MOVE_ASSIGN('))
    clause = ('\n__CPROVER_ensures(!g_o_src || MEM(o) != g_pre_o.mem || g_o_alive == (g_ok < COUNT(o))) /* C06 C09: a source that keeps its block keeps its objects alive exactly as long as it holds them (moved-from, not destroyed: it destroys them itself later) */'
              '\n__CPROVER_ensures(!g_o_src || MEM(v) != g_pre_o.mem || g_o_alive == (g_ok < COUNT(v))) /* C06 C09: objects that change owner with the block are neither destroyed nor re-constructed */')
    return txt[:k] + clause + txt[k:]


def copy_ctor_src_watch_text(txt):
    """copy construction of a vector of FixedSize<Tracked>: the watched object is an item of the source (the generated harness
    watches none); the contract additionally counts the constructions: one copy construction per held item, no move"""
    assert txt.count('\nvoid h_copy_ctor(void)\n') == 1 and txt.count('static Vp mkvec_o(void)') == 1
    txt = txt.replace('static Vp mkvec_o(void)', 'static uint8_t g_o_src; /* 1: the watched object is a valid item of the source operand */\nstatic Vp mkvec_o(void)', 1)
    i = txt.index('\nvoid h_copy_ctor(void)\n'); j = txt.index('\n}', i) + 2
    h = txt[i:j].replace('h_copy_ctor(void)', 'h_copy_ctor_src(void)')
    watch = (' g_ok = nondet_u8(); g_oj = nondet_u8(); __CPROVER_assume(g_ok < CAPK_O && g_oj < MAXC);'
             ' if (OVALID(o)) { g_o = OITEM(o); g_o_alive = g_ok < COUNT(o); g_o_src = 1; } else { g_o = malloc(4); g_o_alive = 0; g_o_src = 0; }'
             ' g_o_how = 0; g_o_from = 0; g_o_asg = 0; g_o_moved_from = 0; g_obj_live = nondet_u8() + 64; g_obj_copy = 0; g_obj_move = 0; g_obj_dtor = 0;')
    assert 'Vp o = mkvec_o();' in h
    h = h.replace('Vp o = mkvec_o();', 'Vp o = mkvec_o();' + watch, 1)
    txt = txt[:j] + h + txt[j:]
    k = txt.index('\n__CPROVER_assigns(', txt.index('\nvoid F_COPY_CTOR('))
    clause = ('\n__CPROVER_ensures(!g_o_src || (g_o_alive == (g_ok < COUNT(o)) && !g_o_moved_from)) /* C06 C09 C15: copying leaves the objects of the source alive and not moved from */'
              '\n__CPROVER_ensures(g_obj_copy == COUNT(o) * (uint64_t)VFS(o, 0) && g_obj_move == 0 && g_obj_dtor == 0) /* C06: every held object is copy-constructed exactly once through the value type, nothing is moved or destroyed */'
              '\n__CPROVER_ensures(g_obj_live == __CPROVER_old(g_obj_live) + COUNT(o) * (uint64_t)VFS(o, 0)) /* C06: afterwards the live objects are those of the source plus one per item of the copy */')
    txt = txt[:k] + clause + txt[k:]
    k = txt.index('\n__CPROVER_assigns(', txt.index('\nvoid F_COPY_CTOR(')) + len('\n__CPROVER_assigns(')
    return txt[:k] + vec.LIFE_VARS + ', ' + txt[k:]


# relocation of non-trivial objects (C06): reserve beyond capacity, copy/move construction, swap; single-field Tracked lists only (memory budget)
TRACKED_RELOC = ('reserve', 'move_ctor', 'swap')   # copy_ctor: its harness watches no object of the source operand (needs a change of tools/vec.py)


# units that exceed the 10 GB address-space limit of one solver process (measured in the thorough tier; they would only ever be undecided)
OVER_BUDGET = {'ref.f4t_f4t.copy_assign', 'ref.f4t_f4t.move_assign', 'ref.f4t_f4t.swap', 'ref.c4_f4t_c2_f4t.copy_assign', 'ref.c4_f4t_c2_f4t.move_assign',
               'ref.f2u_f4t_f2u.copy_assign', 'ref.f2u_f4t_f2u.move_assign', 'elem.f4t.F1.copy_assign'}


def vec_catalogue(tier):
    quick = [('c4 v4', [0]), ('f4', [0]), ('c8a8 v2 p4a8', [3, 4]), ('f2a4 p1', [1]), ('f4t', [0]), ('c4 f4t', [0]), ('f4m', [0]),
             # lists of integer / floating-point fields: vector-level comparison units only
             ('f4u', [0]), ('f1u f1u', [0]), ('c1 c1', [0]), ('c1 c1a2 c1', [0]), ('c1 c4a4', [0]), ('c2 v2u', [0]), ('c4a4 v2u', [0]), ('f4x', [0])]
    if tier == 'quick':
        return quick
    more = [('c4 v4', [5]), ('f4', [10]), ('p4 p8a8', [0]), ('f3 f5a4 p2a2', [6]), ('f4a16 c4 v4a8', [9]), ('c4 v4x', [0])]
    cat = [(sp, list(fl)) for sp, fl in quick]
    for sp, fl in more:
        hit = [c for c in cat if c[0] == sp]
        if hit: hit[0][1].extend(f for f in fl if f not in hit[0][1])
        else: cat.append((sp, list(fl)))
    return cat
