"""Registry of proof units.  A unit = one real function under contract (enforced), the callees replaced by their
contracts, the harness that builds the pre-states, and the properties its obligations serve."""

AAP = 'cntgs::detail::AllocatorAwarePointer<.*>::'
AAP_UNITS = [
    # (name, harness, enforced function regex, properties)
    ('ctor_size', 'h_ctor_size', AAP + r'AllocatorAwarePointer\(unsigned long, vf::LedgerAlloc<.*> const&\)', ['C07', 'C08', 'C05']),
    ('ctor_ptr', 'h_ctor_ptr', AAP + r'AllocatorAwarePointer\(cntgs::detail::Aligned<8ul>\*, unsigned long, vf::LedgerAlloc<.*> const&\)', ['C16']),
    ('ctor_copy', 'h_ctor_copy', AAP + r'AllocatorAwarePointer\(cntgs::detail::AllocatorAwarePointer<.*> const&\)', ['C07', 'C08', 'C05', 'C09']),
    ('ctor_move', 'h_ctor_move', AAP + r'AllocatorAwarePointer\(cntgs::detail::AllocatorAwarePointer<.*>&&\)', ['C07', 'C08', 'C09', 'C16']),
    ('dtor', 'h_dtor', AAP + r'~AllocatorAwarePointer\(\)', ['C07']),
    ('copy_assign', 'h_copy_assign', AAP + r'operator=\(cntgs::detail::AllocatorAwarePointer<.*> const&\)', ['C07', 'C08', 'C05', 'C09', 'C16']),
    ('copy_assign_self', 'h_copy_assign_self', AAP + r'operator=\(cntgs::detail::AllocatorAwarePointer<.*> const&\)', ['C09']),
    ('move_assign', 'h_move_assign', AAP + r'operator=\(cntgs::detail::AllocatorAwarePointer<.*>&&\)', ['C07', 'C08', 'C09', 'C16']),
    ('move_assign_self', 'h_move_assign_self', AAP + r'operator=\(cntgs::detail::AllocatorAwarePointer<.*>&&\)', ['C09']),
    ('release', 'h_release', AAP + r'release\(\)', ['C07']),
    ('reset', 'h_reset', AAP + r'reset\(', ['C07', 'C08', 'C10', 'C16']),
    ('swap', 'h_swap', r'^void cntgs::detail::swap<vf::LedgerAlloc', ['C08', 'C09', 'C16']),
    ('swap_self', 'h_swap_self', r'^void cntgs::detail::swap<vf::LedgerAlloc', ['C09']),
]
QUICK_FLAGS = [0, 3, 5, 14]   # none; POCCA+POCMA; POCCA+POCS; all-but-POCCA incl. always_equal


def units(tier):
    us = []
    flags = range(16) if tier == 'thorough' else QUICK_FLAGS
    for f in flags:
        for name, h, fn, props in AAP_UNITS:
            us.append(dict(id='aap.F%d.%s' % (f, name), tu='aap', defines=('VF_F=%d' % f,), template='aap.tpl.c', vars={'F': f},
                           entry=h, enforce='@F{%s}' % fn, replace=[], props=props, layer='allocator.hpp', kind='proof'))
    return us
